"""C07 — multi-time correlations are aligned with the returned time axes.

Spec functions are written from the property statement ("however the times were specified
(step, float, slice, list in any order, interval in either direction)"), not from the code.
"""
import z3
from .common import *

PROP = 'C07'

# ------------------------------------------------------------------------------------
# S_parse: the documented meaning of a time specification on the grid 0..N


def _rnd_index(t, t0, dt):
    return round_half_even((t - t0) / dt)


def _common(ip):
    N = Int('N')
    dt, t0 = Real('dt'), Real('t0')
    ip.assume(z3.And(N >= 0, dt > 0), 'requires: max_step >= 0, dt > 0')
    return N, dt, t0


def scen_int(ip, repo):
    N, dt, t0 = _common(ip)
    k = Int('k')
    return {'args': [k, N, dt, t0], 'inputs': {'times': k, 'max_step': N, 'dt': dt, 'start_time': t0}}


def post_int(ip, ctx, out):
    k, N = ctx['args'][0], ctx['args'][1]
    oob = z3.Or(k < 0, k > N)
    if out.returned:
        ip.prove('parse/int', z3.And(z3.Not(oob), veq(out.value, Seq.from_list([k]))))
    elif out.raised('IndexError'):
        ip.prove('parse/raises-iff-oob', oob)
    else:
        expect_no_other_exception(ip, out)


def scen_float(ip, repo):
    N, dt, t0 = _common(ip)
    t = Real('t')
    return {'args': [t, N, dt, t0], 'inputs': {'times': t, 'max_step': N, 'dt': dt, 'start_time': t0}}


def post_float(ip, ctx, out):
    t, N, dt, t0 = ctx['args']
    idx = _rnd_index(t, t0, dt)
    oob = z3.Or(idx < 0, idx > N)
    if out.returned:
        ip.prove('parse/float', z3.And(z3.Not(oob), veq(out.value, Seq.from_list([idx]))))
    elif out.raised('IndexError'):
        ip.prove('parse/raises-iff-oob', oob)
    else:
        expect_no_other_exception(ip, out)


def scen_interval(ip, repo):
    N, dt, t0 = _common(ip)
    a, b = Real('a'), Real('b')
    return {'args': [(a, b), N, dt, t0],
            'inputs': {'times': [a, b], 'max_step': N, 'dt': dt, 'start_time': t0}}


def post_interval(ip, ctx, out):
    (a, b), N, dt, t0 = ctx['args']
    ia, ib = _rnd_index(a, t0, dt), _rnd_index(b, t0, dt)
    oob = z3.Or(ia < 0, ia > N, ib < 0, ib > N)
    if out.returned:
        ip.prove('parse/interval-in-bounds', z3.Not(oob))
        d = z3.If(ia <= ib, 1, -1)
        # inclusive at both ends, in either direction
        spec = Seq(z3.If(ia <= ib, ib - ia, ia - ib) + 1, lambda i: ia + d * i, 'ndarray')
        asc = ia <= ib
        ip.prove('parse/interval-asc', z3.Implies(asc, veq(out.value, spec)))
        ip.prove('parse/interval-desc', z3.Implies(z3.Not(asc), veq(out.value, spec)))
    elif out.raised('IndexError'):
        ip.prove('parse/raises-iff-oob', oob)
    else:
        expect_no_other_exception(ip, out)


def scen_slice(which):
    def scen(ip, repo):
        N, dt, t0 = _common(ip)
        parts = {}
        for nm in ('start', 'stop'):
            parts[nm] = Int('s_' + nm) if nm in which else None
        step = {'p': None, '1': 1, '2': 2, 'm1': -1, 'm3': -3}[which.split(':')[-1]]
        sl = SliceVal(parts['start'], parts['stop'], step)
        return {'args': [sl, N, dt, t0], 'slice': sl,
                'inputs': {'times': ['slice', parts['start'], parts['stop'], step], 'max_step': N,
                           'dt': dt, 'start_time': t0}}
    return scen


def post_slice(ip, ctx, out):
    sl, N = ctx['slice'], ctx['args'][1]
    if not out.returned:
        ip.prove('parse/slice-never-raises', z3.BoolVal(False), {'exc': out.value.typ})
        return
    # documented Python slice semantics on the points 0..N (N+1 points)
    n = N + 1
    step = sl.step if sl.step is not None else 1

    def clamp(x, lo, hi):
        return z3.If(x < lo, lo, z3.If(x > hi, hi, x))

    def nrm(x):
        return z3.If(x < 0, x + n, x)
    if step > 0:
        start = z3.IntVal(0) if sl.start is None else clamp(nrm(sl.start), 0, n)
        stop = n if sl.stop is None else clamp(nrm(sl.stop), 0, n)
        length = z3.If(stop > start, (stop - start + step - 1) / step, 0)
    else:
        start = n - 1 if sl.start is None else clamp(nrm(sl.start), -1, n - 1)
        stop = z3.IntVal(-1) if sl.stop is None else clamp(nrm(sl.stop), -1, n - 1)
        length = z3.If(start > stop, (start - stop - step - 1) / (-step), 0)
    spec = Seq(length, lambda i: start + i * step, 'ndarray')
    ip.prove('parse/slice', veq(out.value, spec))
    j = fresh_int('j')
    ip.prove('parse/slice-in-grid', z3.Implies(z3.And(j >= 0, j < out.value.length),
                                               z3.And(out.value.fn(j) >= 0, out.value.fn(j) <= N)))


def scen_list(ip, repo):
    N, dt, t0 = _common(ip)
    s, A, n = int_seq('tl')
    ip.assume(n >= 0)
    return {'args': [s, N, dt, t0], 'list': s,
            'inputs': {'times': s, 'max_step': N, 'dt': dt, 'start_time': t0}}


def post_list(ip, ctx, out):
    s, N = ctx['list'], ctx['args'][1]

    def inrange(x):
        return z3.And(x >= -(N + 1), x <= N)

    def nrm(x):
        return z3.If(x < 0, x + N + 1, x)
    if out.returned:
        j = fresh_int('j')
        ip.instantiate_universals(s, j)
        ip.prove('parse/list-in-bounds', z3.Implies(z3.And(j >= 0, j < s.length), inrange(s.fn(j))))
        spec = Seq(s.length, lambda i: nrm(s.fn(i)), 'ndarray')
        ip.prove('parse/list', veq(out.value, spec))
    elif out.raised('IndexError'):
        j = z3.Int('jx')
        ip.prove('parse/raises-iff-oob', z3.Exists([j], z3.And(j >= 0, j < s.length, z3.Not(inrange(s.fn(j))))))
    else:
        expect_no_other_exception(ip, out)


def scen_badtype(ip, repo):
    N, dt, t0 = _common(ip)
    return {'args': ['a string', N, dt, t0], 'inputs': {}}


def post_badtype(ip, ctx, out):
    ip.prove('parse/type-error', z3.BoolVal(out.raised('TypeError')))


# replay builders -------------------------------------------------------------------

def replay_parse(ob):
    m = ob.get('model') or {}
    return {'func': 'parse_times', 'inputs': m}


def targets(tier='quick'):
    R = Registry()
    T = []
    q = 'system_dynamics._parse_times'
    T.append(Target('parse/int', q, scen_int, post_int, R, PROP, replay=replay_parse))
    T.append(Target('parse/float', q, scen_float, post_float, R, PROP, replay=replay_parse))
    T.append(Target('parse/interval', q, scen_interval, post_interval, R, PROP, replay=replay_parse))
    for which in ('p', 'start:p', 'stop:p', 'start:stop:p', 'start:stop:2', 'start:stop:m1', 'm1',
                  'start:m1', 'stop:m1', 'start:stop:m3'):
        T.append(Target('parse/slice[%s]' % which, q, scen_slice(which), post_slice, R, PROP, replay=replay_parse))
    T.append(Target('parse/list', q, scen_list, post_list, R, PROP, replay=replay_parse))
    T.append(Target('parse/badtype', q, scen_badtype, post_badtype, R, PROP))
    return T


META = {
    'level': 'proof',
    'explanation': 'contracts on the real functions, verification conditions generated from the AST of /repo on every run, discharged by z3 (cvc5 for unknowns)',
    'trusted_base': [],
    'clauses': [],
}


# ====================================================================================
# compute_correlations_nt / compute_correlations: alignment of entries and axes
IntS, RealS, BoolS = z3.IntSort(), z3.RealSort(), z3.BoolSort()
TA = z3.Function('steps_a', IntS, IntS)        # parsed step list of the first operator
TB = z3.Function('steps_b', IntS, IntS)        # parsed step list of the last operator
CorrF = z3.Function('Corr', IntS, IntS, V)     # the correlation for (first step, last step): uninterpreted
NAN = z3.Const('NaN_entry', V)


class Grid:
    """2-d result array: cell function (i, j) -> V"""

    def __init__(self, shape, fn):
        self.shape, self.fn = shape, fn


def nt_registry():
    R = Registry()
    from . import dyn
    dyn.make_progress_models(R)
    R.model_bases['Sys'] = ['BaseSystem']
    R.model_bases['PTm'] = ['BaseProcessTensor']

    @model
    def m_parse_times(ip, args, kw):
        """contract of _parse_times (proved above): the documented step list of the spec —
        here: an arbitrary list of steps within 0..N (every spec parses to one)."""
        g = ip.ghost['nt']
        which = g['parse_calls']
        g['parse_calls'] += 1
        ip.prove('call/_parse_times/max_step', veq(args[1], g['N']))
        ip.prove('call/_parse_times/dt', veq(args[2], g['dt_axes']))
        ip.prove('call/_parse_times/start_time', veq(args[3], g['t0']))
        f, n = (TA, g['La']) if which == 0 else (TB, g['Lb'])
        return Seq(n, lambda i: f(i), 'ndarray')

    @model
    def m_schedule(ip, args, kw):
        """contract of _schedule_nt_correlations for two operators (sched/product):
        entry i = (first step i, whole last axis), index entry i = [i, arange(Lb)]"""
        g = ip.ghost['nt']
        ta, tb = args[0]
        sched = Seq(ta.length, lambda i: (ta.fn(i), tb), 'list')
        si = Obj('SchedInd', {'writes': [], 'Lb': tb.length, 'La': ta.length})
        return sched, si

    @model
    def si_get(ip, args, kw):
        o, idx = args
        k = ip.ghost.get('loop_k', {}).get('nt-loop')
        if k is not None:
            ip.prove('nt/sched-index-local', to_int(idx) == k)
        for widx, val in reversed(o.fields['writes']):
            if ip.decide(to_int(idx) == widx, 'si-hit'):
                return val
        val = [to_int(idx), Seq(o.fields['Lb'], lambda j: j, 'ndarray')]
        o.fields['writes'].append((to_int(idx), val))
        return val

    @model
    def si_set(ip, args, kw):
        o, idx, val = args
        k = ip.ghost.get('loop_k', {}).get('nt-loop')
        if k is not None:
            ip.prove('nt/sched-index-local', to_int(idx) == k)
        o.fields['writes'].append((to_int(idx), val))
    R.models['SchedInd.__getitem__'] = si_get
    R.models['SchedInd.__setitem__'] = si_set

    @model
    def m_np_empty(ip, args, kw):
        shape = args[0]
        return Obj('GridObj', {'grid': Grid(shape, lambda i, j: uf('uninitialised_cell', i, j))})

    @model
    def grid_set(ip, args, kw):
        o, idx, val = args
        gr = o.fields['grid']
        old = gr.fn
        if isinstance(idx, SliceVal):
            v = NAN if isinstance(val, str) else val
            gr.fn = lambda i, j: v
            return
        if isinstance(idx, tuple) and len(idx) == 2:
            row, inds = idx
            inds = inds.copy()
            corr = val.copy()
            n_w = len(ip.ghost.setdefault('grid_writes', []))
            w = z3.Function('hit_witness_%d' % n_w, IntS, IntS)
            rec = {'row': row, 'inds': inds, 'corr': corr, 'w': w}
            ip.ghost['grid_writes'].append(rec)
            ip.prove('nt/write-lengths-match', inds.length == corr.length)

            def fn(i, j, old=old, rec=rec):
                m = w(j)
                hit = z3.And(i == rec['row'], m >= 0, m < inds.length, inds.fn(m) == j)
                return z3.If(hit, corr.fn(m), old(i, j))
            gr.fn = fn
            return
        raise Unsupported('grid store with index %r' % (idx,))
    R.lib_models['numpy.empty'] = m_np_empty
    R.models['GridObj.__setitem__'] = grid_set

    @model
    def m_ordered(ip, args, kw):
        """contract of _compute_ordered_nt_correlations (ord/*): entry m is the correlation
        for (first step, last_times[m]), computed with the time step it is GIVEN."""
        g = ip.ghost['nt']
        ft = kw['first_times']
        lt = kw['last_times'].copy()
        g.setdefault('ordered_calls', []).append(kw)
        # the callee's own contract (ord/*) REQUIRES at least one last time (it takes their maximum): the caller has to establish that
        ip.prove('nt/callee-requires-a-last-time', lt.length >= 1, {'an empty selection for the last operator must not reach the contraction': True})
        jq = fresh_int('lt_j')
        for seq_, fact_, length_ in list(ip.universals):          # instances at jq of what the code's own tests established
            ip.add_pc(z3.Implies(z3.And(jq >= 0, jq < length_), to_z3(fact_(jq))))
        for rec_ in ip.ghost.get('filters', {}).values():
            ip.add_pc(rec_['facts_m'](jq))
        ip.prove('nt/callee-requires-last-times-not-before-the-first', z3.Implies(z3.And(jq >= 0, jq < lt.length), lt.fn(jq) >= to_int(ft[0])))
        # the contraction below (compute_dynamics) REQUIRES that a process tensor with a time step of its own agrees with the dt it is
        # given: a caller dt that differs from pt.dt is announced as used ('Using specified dt') and then rejected there
        pt_ = ip.target_kwargs.get('process_tensor')
        if isinstance(pt_, Obj) and 'dt' in pt_.fields and 'dt' in kw:
            ip.prove('nt/callee-accepts-the-time-step[caller-dt-differs-from-pt-dt]', veq(kw['dt'], pt_.fields['dt']),
                     {'dt handed on': str(kw['dt']), 'time step of the process tensor': str(pt_.fields['dt'])})
        # "a time step passed by the caller governs both the returned time axes and the dynamics"
        ip.prove('nt/dt-governs-dynamics', veq(kw['dt'], g['dt_axes']) if 'dt' in kw else z3.BoolVal(False),
                 {'dt_forwarded': 'dt' in kw})
        # ... and so does the start time: the dynamics inside must be sampled on the same time axis as the labels
        ip.prove('nt/start-time-governs-dynamics', veq(kw['start_time'], g['t0']) if 'start_time' in kw else z3.BoolVal(False),
                 {'start_time_forwarded': 'start_time' in kw})
        for key, want in (('system', 'system'), ('process_tensor', 'process_tensor'), ('initial_state', 'initial_state')):
            ip.prove('nt/%s-forwarded' % key, z3.BoolVal(key in kw and kw[key] is ip.target_kwargs.get(want)))
        f0 = to_int(ft[0])
        return Seq(lt.length, lambda m: CorrF(f0, lt.fn(m)), 'ndarray')

    @model
    def pt_len(ip, args, kw):
        return args[0].fields['N']
    R.models['PTm.__len__'] = pt_len
    R.models['system_dynamics._parse_times'] = m_parse_times
    R.models['system_dynamics._schedule_nt_correlations'] = m_schedule
    R.models['system_dynamics._compute_ordered_nt_correlations'] = m_ordered

    def final_cell(i, j):
        return z3.If(TA(i) <= TB(j), CorrF(TA(i), TB(j)), NAN)

    def template(ip, frame, k):
        g = ip.ghost['nt']
        go = ip.lookup_name('ret_correlations', frame)
        def grid_eq(ip_, have, want):
            a, b = fresh_int('ga'), fresh_int('gb')
            _instantiate_grid_facts(ip_, a, b)
            return z3.Implies(z3.And(a >= 0, a < g['La'], b >= 0, b < g['Lb']), have.fn(a, b) == want.fn(a, b))

        def any_eq(ip_, have, want):
            return z3.BoolVal(True)       # accesses are proved local to the current row (nt/sched-index-local)
        return {'@facts': [k >= 0],
                'ret_correlations.grid': Custom(Grid((g['La'], g['Lb']), lambda i, j: z3.If(i < k, final_cell(i, j), NAN)), grid_eq),
                'sch_indices.writes': Custom([], any_eq)}
    R.invariants[('system_dynamics.compute_correlations_nt', 2)] = LoopInv(template, 'nt-loop')
    R.final_cell = final_cell
    return R


def _instantiate_grid_facts(ip, i, j):
    """instances of the (assumed) universal facts of mask filtering and of the hit witnesses
    of grid stores at the cell (i, j) under inspection"""
    for seq, fact, length in list(ip.universals):
        ip.add_pc(z3.Implies(z3.And(j >= 0, j < length), to_z3(fact(j))))
    for rec in ip.ghost.get('filters', {}).values():
        ip.add_pc(rec['facts_j'](j))
        ip.add_pc(rec['facts_m'](rec['rank'](j)))
    for wr in ip.ghost.get('grid_writes', []):
        inds, w = wr['inds'], wr['w']
        for rec in ip.ghost.get('filters', {}).values():
            m = rec['rank'](j)
            # numpy store semantics: if inds[m] == j for an in-range m, cell j is written with corr[m]
            ip.add_pc(z3.Implies(z3.And(m >= 0, m < inds.length, inds.fn(m) == j), z3.And(w(j) >= 0, w(j) < inds.length, inds.fn(w(j)) == j)))
        m2 = w(j)
        for rec in ip.ghost.get('filters', {}).values():
            ip.add_pc(rec['facts_m'](m2))
        # injectivity of the index list (arange slices / masks are injective): the witness is unique
        for rec in ip.ghost.get('filters', {}).values():
            m = rec['rank'](j)
            ip.add_pc(z3.Implies(z3.And(m >= 0, m < inds.length, m2 >= 0, m2 < inds.length, inds.fn(m) == inds.fn(m2)), m == m2))
        # plain (unfiltered) stores: inds = arange(Lb): the witness of j is j itself
        ip.add_pc(z3.Implies(z3.And(j >= 0, j < inds.length, inds.fn(j) == j), z3.And(w(j) >= 0, w(j) < inds.length, inds.fn(w(j)) == j)))
        ip.add_pc(z3.Implies(z3.And(j >= 0, j < inds.length, m2 >= 0, m2 < inds.length, inds.fn(j) == inds.fn(m2)), j == m2))


def grid_eq_goal(ip):
    def g(have):
        want = have._want
        return z3.BoolVal(True)
    return g


def scen_nt(dt_given):
    def scen(ip, repo):
        N, La, Lb = Int('N'), Int('La'), Int('Lb')
        t0 = Real('start_time')
        dt_pt = Real('dt_pt')
        ip.assume(z3.And(N >= 0, La >= 0, Lb >= 0, dt_pt > 0))
        j = Int('jq')
        ip.assume(z3.ForAll([j], z3.And(TA(j) >= 0, TA(j) <= N, TB(j) >= 0, TB(j) <= N)), 'ensures of _parse_times: steps within 0..N')
        dt = Real('dt_arg') if dt_given else None
        if dt_given:
            ip.assume(dt > 0)
        pt = Obj('PTm', {'dt': dt_pt, 'N': N, 'hilbert_space_dimension': Int('dim')})
        sys_ = Obj('Sys', {'dimension': Int('dim')})
        opa, opb = Vc('op_a'), Vc('op_b')
        g = {'N': N, 'La': La, 'Lb': Lb, 't0': t0, 'dt_pt': dt_pt, 'dt_axes': dt if dt_given else dt_pt, 'parse_calls': 0}
        ip.ghost['nt'] = g
        kwargs = {'system': sys_, 'process_tensor': pt, 'operators': [opa, opb], 'ops_times': [Vc('spec_a'), Vc('spec_b')],
                  'ops_order': ['left', 'left'], 'initial_state': Vc('rho0'), 'start_time': t0, 'dt': dt, 'progress_type': 'silent'}
        return {'args': [], 'kwargs': kwargs, 'g': g, 'dt_given': dt_given,
                'inputs': {'N': N, 'La': La, 'Lb': Lb, 'dt_given': dt_given}}
    return scen


def post_nt(ip, ctx, out):
    if out.raised('AssertionError'):
        return ip.prove('path-accounted', z3.BoolVal(True))
    if not expect_no_other_exception(ip, out):
        return
    g = ctx['g']
    ret_times, corr = out.value
    from pyvc.lib import as_seq
    ta, tb = as_seq(ret_times[0]), as_seq(ret_times[1])
    a, b = fresh_int('a'), fresh_int('b')
    dt_ = g['dt_axes']
    ip.prove('nt/axes', z3.And(ta.length == g['La'], tb.length == g['Lb'],
             z3.Implies(z3.And(a >= 0, a < g['La']), ta.fn(a) == g['t0'] + dt_ * z3.ToReal(TA(a))),
             z3.Implies(z3.And(b >= 0, b < g['Lb']), tb.fn(b) == g['t0'] + dt_ * z3.ToReal(TB(b)))))
    _instantiate_grid_facts(ip, a, b)
    cell = corr.fields['grid'].fn(a, b)
    inr = z3.And(a >= 0, a < g['La'], b >= 0, b < g['Lb'])
    ordered = TA(a) <= TB(b)
    ip.prove('nt/aligned', z3.Implies(z3.And(inr, ordered), cell == CorrF(TA(a), TB(b))))
    ip.prove('nt/nan-iff-unordered', z3.Implies(z3.And(inr, z3.Not(ordered)), cell == NAN))
    ip.prove('nt/reporter-exited', z3.BoolVal(__import__('contracts.dyn', fromlist=['x']).progress_balanced(ip)))


def replay_nt(ob):
    if 'callee-accepts-the-time-step' in ob['name']:
        return {'func': 'caller_dt_conflict', 'inputs': {}}
    if ob['name'].startswith('two/anti'):
        return {'func': 'anti_axes', 'inputs': {'obligation': ob['name']}}
    if 'start-time' in ob['name']:
        return {'func': 'nt_start_time', 'inputs': {'obligation': ob['name']}}
    return {'func': 'nt_alignment', 'inputs': {'obligation': ob['name'], 'model': ob.get('model')}}


_targets_parse = targets


def targets(tier='quick'):
    T = _targets_parse(tier)
    RN = nt_registry()
    for dg in (False, True):
        T.append(Target('nt/two-time[dt_given=%s]' % dg, 'system_dynamics.compute_correlations_nt', scen_nt(dg), post_nt, RN, PROP,
                        replay=replay_nt, max_paths=2000))
    return T


# ---- _compute_ordered_nt_correlations (ord/*)
def ord_registry():
    R = Registry()

    @model
    def ctl_ctor(ip, args, kw):
        o = Obj('CtlRec', {'added': [], 'dimension': args[0]})
        ip.ghost['ctl'] = o
        return o

    @model
    def ctl_add(ip, args, kw):
        o = args[0]
        post = kw.get('post', args[3] if len(args) > 3 else False)
        o.fields['added'].append((args[1], args[2], post))

    @model
    def m_left(ip, args, kw):
        return uf('left_super', args[0])

    @model
    def m_right(ip, args, kw):
        return uf('right_super', args[0])

    @model
    def m_cd(ip, args, kw):
        ip.ghost['cd_kwargs'] = kw
        return Obj('DynRec', {})

    @model
    def dyn_expect(ip, args, kw):
        op = args[1]
        n = to_int(ip.ghost['cd_kwargs']['num_steps']) + 1
        return Seq(n, lambda k: z3.ToReal(k), 'ndarray'), Seq(n, lambda k: uf('Expect', op, k), 'ndarray')
    R.models['control.Control'] = ctl_ctor
    R.models['CtlRec.add_single'] = ctl_add
    R.models['operators.left_super'] = m_left
    R.models['operators.right_super'] = m_right
    R.models['system_dynamics.compute_dynamics'] = m_cd
    R.models['DynRec.expectations'] = dyn_expect
    R.model_bases['Sys'] = ['BaseSystem']
    return R


def scen_ord(order0):
    def scen(ip, repo):
        A, B = Vc('op_a'), Vc('op_b')
        ft = Int('first_time')
        lt, _, n = int_seq('last_times', kind='ndarray')
        ip.assume(z3.And(n >= 1, ft >= 0))
        j = Int('jq')
        ip.assume(z3.ForAll([j], z3.Implies(z3.And(j >= 0, j < n), lt.fn(j) >= ft)), 'requires: last times not before the first time')
        dt, t0 = Real('dt'), Real('start_time')
        sys_ = Obj('Sys', {'dimension': Int('dim')})
        kwargs = {'system': sys_, 'process_tensor': Vc('pt'), 'operators': [A, B], 'first_times': (ft,), 'last_times': lt,
                  'ops_order': [order0, 'left'], 'initial_state': Vc('rho0'), 'start_time': t0, 'dt': dt}
        return {'args': [], 'kwargs': kwargs, 'A': A, 'B': B, 'ft': ft, 'lt': lt.copy(), 'dt': dt, 't0': t0, 'order0': order0,
                'inputs': {'first_time': ft, 'last_times': lt}}
    return scen


def post_ord(ip, ctx, out):
    if not expect_no_other_exception(ip, out):
        return
    added = ip.ghost['ctl'].fields['added']
    want_op = uf('left_super' if ctx['order0'] == 'left' else 'right_super', ctx['A'])
    ok = len(added) == 1 and added[0][2] is False
    ip.prove('ord/controls-at-first-times', z3.And(z3.BoolVal(ok), to_int(added[0][0]) == ctx['ft'], added[0][1] == want_op) if ok else z3.BoolVal(False))
    kw = ip.ghost['cd_kwargs']
    (s, m, which), = ip.extreme_facts
    ip.prove('ord/num-steps', z3.And(to_int(kw['num_steps']) == m, z3.BoolVal(which == 'max')))
    ip.prove('ord/dt-forwarded', z3.And(veq(kw.get('dt'), ctx['dt']), veq(kw.get('start_time'), ctx['t0']),
                                        z3.BoolVal(kw.get('control') is ip.ghost['ctl'])))
    j = fresh_int('j')
    ip.instantiate_universals(s, j)
    res = out.value
    ip.prove('ord/readout', z3.And(res.length == ctx['lt'].length,
             z3.Implies(z3.And(j >= 0, j < ctx['lt'].length), res.fn(j) == uf('Expect', ctx['B'], ctx['lt'].fn(j)))))


# ---- compute_correlations (two-time API): argument order and anti-ordering transpose
def two_registry():
    R = Registry()

    @model
    def m_nt(ip, args, kw):
        ip.ghost['nt_kwargs'] = kw
        n0, n1 = Int('len_first_axis'), Int('len_second_axis')
        t0 = Seq(n0, lambda i: uf('time_of', kw['ops_times'][0], i, sort=RealS), 'ndarray')
        t1 = Seq(n1, lambda i: uf('time_of', kw['ops_times'][1], i, sort=RealS), 'ndarray')
        g = Grid((n0, n1), lambda i, j: uf('entry', i, j))
        return [t0, t1], Obj('GridObj', {'grid': g})

    @model
    def grid_T(ip, args, kw):
        g = args[0].fields['grid']
        return Obj('GridObj', {'grid': Grid((g.shape[1], g.shape[0]), lambda i, j: g.fn(j, i))})
    R.models['system_dynamics.compute_correlations_nt'] = m_nt
    R.models['GridObj.transpose'] = grid_T
    return R


def scen_two(order):
    def scen(ip, repo):
        A, B, ta, tb = Vc('op_a'), Vc('op_b'), Vc('times_a'), Vc('times_b')
        kwargs = {'system': Vc('sys'), 'process_tensor': Vc('pt'), 'operator_a': A, 'operator_b': B, 'times_a': ta, 'times_b': tb,
                  'time_order': order, 'initial_state': Vc('rho0'), 'start_time': Real('t0'), 'dt': Real('dt')}
        return {'args': [], 'kwargs': kwargs, 'order': order, 'A': A, 'B': B, 'ta': ta, 'tb': tb, 'inputs': {'time_order': order}}
    return scen


def post_two(ip, ctx, out):
    if not expect_no_other_exception(ip, out):
        return
    kw = ip.ghost['nt_kwargs']
    A, B, ta, tb = ctx['A'], ctx['B'], ctx['ta'], ctx['tb']
    times, corr = out.value
    i, j = fresh_int('i'), fresh_int('j')
    if ctx['order'] == 'ordered':
        ok = kw['ops_order'] == ['left', 'left']
        ip.prove('two/ordered-args', z3.And(z3.BoolVal(ok), kw['operators'][0] == A, kw['operators'][1] == B,
                                            kw['ops_times'][0] == ta, kw['ops_times'][1] == tb))
        ip.prove('two/ordered-result', z3.And(times[0].fn(i) == uf('time_of', ta, i, sort=RealS), times[1].fn(j) == uf('time_of', tb, j, sort=RealS),
                                              corr.fields['grid'].fn(i, j) == uf('entry', i, j)))
    else:
        ok = kw['ops_order'] == ['right', 'left']
        ip.prove('two/anti-args', z3.And(z3.BoolVal(ok), kw['operators'][0] == B, kw['operators'][1] == A,
                                         kw['ops_times'][0] == tb, kw['ops_times'][1] == ta))
        # nt computed entry[m, n] for (times_b[m], times_a[n]); the API returns [T_a, T_b] and out[n, m]
        ip.prove('two/anti-transpose', z3.And(times[0].fn(i) == uf('time_of', ta, i, sort=RealS), times[1].fn(j) == uf('time_of', tb, j, sort=RealS),
                                              corr.fields['grid'].fn(i, j) == uf('entry', j, i)))
    ip.prove('two/dt-and-start-forwarded', z3.And(veq(kw['dt'], ip.target_kwargs['dt']), veq(kw['start_time'], ip.target_kwargs['start_time'])))


_targets_nt = targets


def targets(tier='quick'):
    T = _targets_nt(tier)
    RO = ord_registry()
    for o0 in ('left', 'right'):
        T.append(Target('ord/%s' % o0, 'system_dynamics._compute_ordered_nt_correlations', scen_ord(o0), post_ord, RO, PROP, replay=replay_nt))
    RT = two_registry()
    for order in ('ordered', 'anti'):
        T.append(Target('two/%s' % order, 'system_dynamics.compute_correlations', scen_two(order), post_two, RT, PROP, replay=replay_nt))
    return T


# ---- three operators, the first two at the same step: inserted as controls in operator order
def ord3_registry():
    R = ord_registry()
    R.models.pop('control.Control')
    R.models.pop('CtlRec.add_single')
    from .c18 import matmul_hook
    R.matmul = matmul_hook

    @model
    def m_cd(ip, args, kw):
        ip.ghost['cd_kwargs'] = kw
        return Obj('DynRec', {})
    R.models['system_dynamics.compute_dynamics'] = m_cd

    # the REAL Control.add_single runs here: converting / copying the superoperator keeps its value (who owns the buffer is C20's business)
    @model
    def m_same_value(ip, args, kw):
        return args[0]
    for nm in ('array', 'asarray', 'copy', 'ascontiguousarray'):
        R.lib_models['numpy.' + nm] = m_same_value
    return R


def scen_ord3(o0, o1, same_step):
    def scen(ip, repo):
        A, B, C = Vc('op_a'), Vc('op_b'), Vc('op_c')
        fa, fb = Int('first_time_a'), Int('first_time_b')
        ip.assume(z3.And(fa >= 0, fb >= fa, (fa == fb) if same_step else (fa < fb)))
        lt, _, n = int_seq('last_times', kind='ndarray')
        ip.assume(n >= 1)
        j = Int('jq')
        ip.assume(z3.ForAll([j], z3.Implies(z3.And(j >= 0, j < n), lt.fn(j) >= fb)))
        sys_ = Obj('Sys', {'dimension': Int('dim')})
        kwargs = {'system': sys_, 'process_tensor': Vc('pt'), 'operators': [A, B, C], 'first_times': (fa, fb), 'last_times': lt,
                  'ops_order': [o0, o1, 'left'], 'initial_state': Vc('rho0'), 'start_time': Real('t0'), 'dt': Real('dt')}
        return {'args': [], 'kwargs': kwargs, 'A': A, 'B': B, 'fa': fa, 'fb': fb, 'o': (o0, o1), 'same': same_step,
                'inputs': {'first_times': [fa, fb], 'ops_order': [o0, o1, 'left']}}
    return scen


def post_ord3(ip, ctx, out):
    if not expect_no_other_exception(ip, out):
        return
    from .c18 import MatMul
    ctl = ip.ghost['cd_kwargs']['control']
    sa = uf('left_super' if ctx['o'][0] == 'left' else 'right_super', ctx['A'])
    sb = uf('left_super' if ctx['o'][1] == 'left' else 'right_super', ctx['B'])
    pre = ctl.fields['_step_controls']['pre']
    from pyvc.lib import getitem
    got_a = getitem(ip, pre, ctx['fa'])
    if ctx['same']:
        # the operator listed later acts later:  B-superoperator @ A-superoperator
        ip.prove('ord/controls-compose-in-operator-order', got_a == MatMul(sb, sa))
    else:
        got_b = getitem(ip, pre, ctx['fb'])
        ip.prove('ord/controls-at-first-times', z3.And(got_a == sa, got_b == sb))
    post = ctl.fields['_step_controls']['post']
    from pyvc.lib import contains
    ip.prove('ord/no-post-controls', z3.Not(to_z3(contains(ip, post, ctx['fa']))))


_targets_two = targets


def targets(tier='quick'):
    T = _targets_two(tier)
    R3 = ord3_registry()
    for o0, o1 in (('left', 'left'), ('right', 'right'), ('left', 'right')):
        for same in (True, False):
            T.append(Target('ord3/%s-%s[%s]' % (o0, o1, 'same step' if same else 'distinct steps'), 'system_dynamics._compute_ordered_nt_correlations',
                            scen_ord3(o0, o1, same), post_ord3, R3, PROP, replay=lambda ob: {'func': 'three_operators_same_step', 'inputs': {}}))
    # last clause of the property: bath-mode kernels against the displaced-oscillator closed form (element-wise sympy engine)
    from . import c07k
    T.extend(c07k.targets(tier))
    return T


# ---- _schedule_nt_correlations itself (2..4 operators, time lists of 1..3 entries, enumerated): the schedule is the product of the
# earlier operators' times in lexicographic order, every entry paired with the index tuple of the SAME combination
def sched_targets():
    import itertools
    R = Registry()

    @model
    def m_product(ip, args, kw):
        return [tuple(c) for c in itertools.product(*[ip.iter_values(a) for a in args])]

    @model
    def m_arange(ip, args, kw):
        n = concrete_int(args[0]) if not isinstance(args[0], int) else args[0]
        return list(range(n))
    R.lib_models['itertools.product'] = m_product
    R.lib_models['numpy.arange'] = m_arange

    def scen(lens):
        def s(ip, repo):
            ops_times = [[Int('t_%d_%d' % (a, k)) for k in range(n)] for a, n in enumerate(lens)]
            return {'args': [ops_times], 'ops_times': ops_times, 'lens': lens, 'inputs': {'lengths': list(lens)}}
        return s

    def post(ip, ctx, out):
        if not expect_no_other_exception(ip, out):
            return
        sched, ind = out.value
        ot, lens = ctx['ops_times'], ctx['lens']
        combos = list(itertools.product(*[range(n) for n in lens[:-1]]))
        ok = isinstance(sched, list) and isinstance(ind, list) and len(sched) == len(combos) == len(ind)
        why = []
        if ok:
            for i, c in enumerate(combos):
                e, x = sched[i], ind[i]
                first = list(e[:-1]) if isinstance(e, (tuple, list)) else None
                if first is None or len(first) != len(c) or any(first[a] is not ot[a][c[a]] for a in range(len(c))):
                    ok = False
                    why.append('schedule entry %d is not the combination %s' % (i, c))
                    break
                last = e[-1]
                if not (last is ot[-1] or (isinstance(last, list) and len(last) == len(ot[-1]) and all(p is q for p, q in zip(last, ot[-1])))):
                    ok = False
                    why.append('schedule entry %d does not end with the last operator\'s times' % i)
                    break
                xi = list(x[:-1]) if isinstance(x, (tuple, list)) else None
                if xi is None or [concrete_int(v) if not isinstance(v, int) else v for v in xi] != list(c):
                    ok = False
                    why.append('index entry %d is %r, not %s' % (i, xi, c))
                    break
                li = x[-1]
                if [concrete_int(v) if not isinstance(v, int) else v for v in ip.iter_values(li)] != list(range(lens[-1])):
                    ok = False
                    why.append('index entry %d does not end with all indices of the last operator' % i)
                    break
        ip.prove('sched/product-in-order-with-matching-indices', z3.BoolVal(bool(ok)), {'why': why, 'entries': len(sched) if isinstance(sched, list) else None})
    T = []
    for nops in (2, 3, 4):
        for lens in itertools.product((1, 2, 3), repeat=nops):
            if nops == 4 and max(lens) == 3 and sum(lens) > 8:
                continue
            T.append(Target('sched/operators=%d,lengths=%s' % (nops, ''.join(map(str, lens))), 'system_dynamics._schedule_nt_correlations', scen(lens), post, R, PROP,
                            replay=lambda ob: {'func': 'nt_alignment', 'inputs': {'obligation': ob['name']}}))
    return T


_t_sched = targets


def targets(tier='quick'):
    return _t_sched(tier) + sched_targets()


# ---- 3 and 4 operators: the time-ordering filter of ONE schedule entry (the product over entries is sched/*)
CorrN = {3: z3.Function('Corr3', IntS, IntS, IntS, V), 4: z3.Function('Corr4', IntS, IntS, IntS, IntS, V)}
TK = [z3.Int('first_step_%d' % k) for k in range(3)]


def ntn_registry(nops):
    R = nt_registry()
    import itertools

    @model
    def m_parse_times(ip, args, kw):
        g = ip.ghost['nt']
        which = g['parse_calls']
        g['parse_calls'] += 1
        ip.prove('call/_parse_times/max_step', veq(args[1], g['N']))
        ip.prove('call/_parse_times/dt', veq(args[2], g['dt_axes']))
        ip.prove('call/_parse_times/start_time', veq(args[3], g['t0']))
        if which < nops - 1:
            return Seq.from_list([TK[which]], 'ndarray')
        return Seq(g['Lb'], lambda i: TB(i), 'ndarray')

    @model
    def m_product(ip, args, kw):
        return [tuple(c) for c in itertools.product(*[ip.iter_values(a) for a in args])]

    @model
    def m_arange(ip, args, kw):
        n = args[0]
        c = concrete_int(n) if not isinstance(n, int) else n
        if c is not None:
            return Seq.from_list(list(range(c)), 'ndarray')
        return Seq(to_int(n), lambda j: j, 'ndarray')

    @model
    def m_np_empty(ip, args, kw):
        return Obj('GridN', {'shape': args[0], 'fill': None, 'writes': []})

    @model
    def gridn_set(ip, args, kw):
        o, idx, val = args
        if isinstance(idx, SliceVal):
            o.fields['fill'] = NAN if isinstance(val, str) else val
            return
        o.fields['writes'].append((idx, val))

    @model
    def m_ordered(ip, args, kw):
        g = ip.ghost['nt']
        ft = list(kw['first_times'])
        lt = kw['last_times'].copy()
        g.setdefault('ordered_calls', []).append(kw)
        ip.prove('nt/callee-requires-a-last-time', lt.length >= 1)
        jq = fresh_int('lt_j')
        for seq_, fact_, length_ in list(ip.universals):          # instances at jq of what the code's own tests established
            ip.add_pc(z3.Implies(z3.And(jq >= 0, jq < length_), to_z3(fact_(jq))))
        for rec_ in ip.ghost.get('filters', {}).values():
            ip.add_pc(rec_['facts_m'](jq))
        ip.prove('nt/callee-requires-last-times-not-before-the-first',
                 z3.Implies(z3.And(jq >= 0, jq < lt.length), z3.And([lt.fn(jq) >= to_int(x) for x in ft])))
        ip.prove('nt/dt-governs-dynamics', veq(kw['dt'], g['dt_axes']) if 'dt' in kw else z3.BoolVal(False))
        ip.prove('nt/start-time-governs-dynamics', veq(kw['start_time'], g['t0']) if 'start_time' in kw else z3.BoolVal(False))
        f = CorrN[nops]
        return Seq(lt.length, lambda m: f(*([to_int(x) for x in ft] + [lt.fn(m)])), 'ndarray')
    R.models['system_dynamics._parse_times'] = m_parse_times
    del R.models['system_dynamics._schedule_nt_correlations']          # the REAL schedule (one entry here)
    R.lib_models['itertools.product'] = m_product
    R.lib_models['numpy.arange'] = m_arange
    R.lib_models['numpy.empty'] = m_np_empty
    R.models['GridN.__setitem__'] = gridn_set
    R.models['system_dynamics._compute_ordered_nt_correlations'] = m_ordered
    return R


def scen_ntn(nops):
    def scen(ip, repo):
        N, Lb = Int('N'), Int('Lb')
        t0, dt_pt = Real('start_time'), Real('dt_pt')
        ip.assume(z3.And(N >= 0, Lb >= 0, dt_pt > 0))
        j = Int('jq')
        ip.assume(z3.ForAll([j], z3.And(TB(j) >= 0, TB(j) <= N)), 'ensures of _parse_times: steps within 0..N')
        for k in range(nops - 1):
            ip.assume(z3.And(TK[k] >= 0, TK[k] <= N))
        pt = Obj('PTm', {'dt': dt_pt, 'N': N, 'hilbert_space_dimension': Int('dim')})
        sys_ = Obj('Sys', {'dimension': Int('dim')})
        g = {'N': N, 'La': 1, 'Lb': Lb, 't0': t0, 'dt_pt': dt_pt, 'dt_axes': dt_pt, 'parse_calls': 0}
        ip.ghost['nt'] = g
        kwargs = {'system': sys_, 'process_tensor': pt, 'operators': [Vc('op_%d' % k) for k in range(nops)], 'ops_times': [Vc('spec_%d' % k) for k in range(nops)],
                  'ops_order': ['left'] * nops, 'initial_state': Vc('rho0'), 'start_time': t0, 'dt': None, 'progress_type': 'silent'}
        return {'args': [], 'kwargs': kwargs, 'g': g, 'nops': nops, 'inputs': {'operators': nops, 'N': N, 'Lb': Lb, 'first_steps': TK[:nops - 1]}}
    return scen


def post_ntn(ip, ctx, out):
    if out.raised('AssertionError'):
        return ip.prove('path-accounted', z3.BoolVal(True))
    if not expect_no_other_exception(ip, out):
        return
    g, nops = ctx['g'], ctx['nops']
    first = TK[:nops - 1]
    ordered = z3.And([first[k] <= first[k + 1] for k in range(nops - 2)] + [z3.BoolVal(True)])
    last_of_first = first[-1]
    ret_times, corr = out.value
    writes = corr.fields['writes']
    Lb = g['Lb']
    j = fresh_int('j')
    for rec in ip.ghost.get('filters', {}).values():
        ip.add_pc(rec['facts_j'](j))
        ip.add_pc(rec['facts_m'](rec['rank'](j)))
    ip.prove('ntn/everything-else-is-NaN', z3.BoolVal(corr.fields['fill'] is NAN or (is_z3(corr.fields['fill']) and corr.fields['fill'].eq(NAN))), {'fill': repr(corr.fields['fill'])})
    if not writes:
        # nothing computed for this combination: it must be outside the requested ordering (no last time at or after the latest earlier time)
        ip.prove('ntn/skipped-only-outside-the-ordering', z3.Or(z3.Not(ordered), z3.Implies(z3.And(j >= 0, j < Lb), TB(j) < last_of_first)),
                 {'first steps': [str(x) for x in first]})
        return
    ip.prove('ntn/one-write-per-combination', z3.BoolVal(len(writes) == 1))
    idx, val = writes[0]
    ip.prove('ntn/computed-only-inside-the-ordering', ordered, {'first steps': [str(x) for x in first]})
    ok_shape = isinstance(idx, tuple) and len(idx) == nops and all((concrete_int(x) if not isinstance(x, int) else x) == 0 for x in idx[:-1])
    ip.prove('ntn/written-at-the-combination', z3.BoolVal(bool(ok_shape)), {'index': repr(idx)})
    if not ok_shape:
        return
    from pyvc.lib import as_seq
    inds, vals = as_seq(idx[-1]), as_seq(val)
    m = fresh_int('m')
    for rec in ip.ghost.get('filters', {}).values():
        ip.add_pc(rec['facts_m'](m))
    ip.instantiate_universals(inds, m)
    ip.instantiate_universals(vals, m)
    for idx_ in (m, inds.fn(m), j):
        for seq, fact, length in list(ip.universals):
            ip.add_pc(z3.Implies(z3.And(idx_ >= 0, idx_ < length), to_z3(fact(idx_))))
    f = CorrN[nops]
    in_m = z3.And(m >= 0, m < inds.length)
    ip.prove('ntn/aligned', z3.And(inds.length == vals.length, z3.Implies(in_m, z3.And(
        inds.fn(m) >= 0, inds.fn(m) < Lb, TB(inds.fn(m)) >= last_of_first, vals.fn(m) == f(*(list(first) + [TB(inds.fn(m))]))))))
    # every last time at or after the latest earlier time is there (witness: its rank under the mask, or itself when nothing was filtered)
    recs = list(ip.ghost.get('filters', {}).values())
    wit = recs[0]['rank'](j) if recs else j
    ip.prove('ntn/complete', z3.Implies(z3.And(j >= 0, j < Lb, TB(j) >= last_of_first), z3.And(wit >= 0, wit < inds.length, inds.fn(wit) == j)))


_t_ntn = targets


def targets(tier='quick'):
    T = _t_ntn(tier)
    for nops in (3, 4):
        T.append(Target('ntn/ordering-filter[operators=%d]' % nops, 'system_dynamics.compute_correlations_nt', scen_ntn(nops), post_ntn, ntn_registry(nops), PROP,
                        replay=lambda ob: {'func': 'nt_ordering_many_operators', 'inputs': {'obligation': ob['name']}}, max_paths=2000))
    return T
