"""NodeArray.svd_sweep — compression sweeps of the MPS/MPO arrays (engine: pyvc + tnnorm, SVD as an exact factorisation).

For arrays of 1..4 sites (free tensor symbols of any dimensions), with and without dangling left/right legs, MPS and MPO rank, and every
pair (from_index, to_index), the REAL svd_sweep is run with tensornetwork.split_node_full_svd replaced by its contract (an exact
factorisation node = u s vh along the stated edge partition, the truncation parameters recorded):

  svd/parameters     every factorisation of the sweep gets exactly the caller's max_singular_values, max_truncation_err and relative
                     (truncation relative to the largest singular value is what TEMPO and PT-TEMPO ask for, in BOTH sweep directions)
  svd/count          one factorisation per bond between from_index and to_index
  svd/network        with nothing truncated the contracted network is unchanged (same tensor, same open legs in the same order)
  svd/representation afterwards bond_edges[i] still joins nodes[i] and nodes[i+1]; array/left/right edges still sit on their nodes
  svd/index-errors   IndexError exactly for from/to outside the array
Bounded in the NUMBER OF SITES (1..4, enumerated); unbounded in every dimension."""
import time
import z3
from .common import *
from pyvc import tnnorm
from pyvc.tnnorm import TArr, TNode, contract_between, tn_copy, equal
from pyvc.interp import Interp
from pyvc.modules import Repo, describe
from pyvc import values as Vv


def network_value(na):
    nodes = list(na.fields['nodes'])
    nd, ed = tn_copy(nodes)
    c = nd[nodes[0]]
    for n in nodes[1:]:
        c = contract_between(c, nd[n])
    order = []
    if na.fields['left_edge'] is not None:
        order.append(ed[na.fields['left_edge']])
    for es in na.fields['array_edges']:
        order += [ed[e] for e in es]
    if na.fields['right_edge'] is not None:
        order.append(ed[na.fields['right_edge']])
    if sorted(map(id, order)) != sorted(map(id, c.edges)):
        return None
    perm = [next(i for i, e in enumerate(c.edges) if e is x) for x in order]
    return c.arr.permute(perm)


def representation_ok(na):
    f = na.fields
    nodes = f['nodes']
    why = []
    for i, e in enumerate(f['bond_edges']):
        ends = [n for n, _ in e.ends]
        if not (len(ends) == 2 and any(n is nodes[i] for n in ends) and any(n is nodes[i + 1] for n in ends)):
            why.append('bond_edges[%d] does not join nodes[%d] and nodes[%d]' % (i, i, i + 1))
    for i, es in enumerate(f['array_edges']):
        for e in es:
            if not (e.is_dangling() and e.ends[0][0] is nodes[i]):
                why.append('an array edge of site %d is not a dangling edge of nodes[%d]' % (i, i))
    for nm, k in (('left_edge', 0), ('right_edge', -1)):
        e = f[nm]
        if e is not None and not (e.is_dangling() and e.ends[0][0] is nodes[k]):
            why.append('%s is not a dangling edge of nodes[%d]' % (nm, k))
    return why


class SvdSweepTarget:
    def __init__(self, prop, replay_func=None):
        self.prop, self.name, self.qualname = prop, 'na/svd_sweep', 'backends.node_array.NodeArray.svd_sweep'
        self.replay_func = replay_func

    def replay(self, ob):
        return {'func': self.replay_func, 'inputs': {'obligation': ob['name']}} if self.replay_func else None

    def run(self, timeout_ms, tier):
        t0 = time.time()
        repo = Repo()
        res = {'target': self.name, 'function': self.qualname, 'property': self.prop, 'paths': 0, 'obligations': [], 'undecided': [], 'errors': [],
               'flags': ['FREE_TENSOR_SYMBOLS', 'SVD_AS_EXACT_FACTORISATION', 'ENUMERATED_NUMBER_OF_SITES[1..4]'], 'lib_pure': [],
               'lib_used': ['tensornetwork.Node, ^, @, split_node_full_svd (contract: exact factorisation)'], 'functions_extra': []}
        fref = repo.resolve(self.qualname)
        ctor = repo.resolve('backends.node_array.NodeArray')
        if fref is None or ctor is None:
            res['undecided'].append('contract target missing: %s' % self.qualname)
            return res
        res['functions_extra'].append(describe(fref))
        R = Registry()
        tnnorm.install(R)

        @model
        def m_rank(ip, args, kw):
            # contract of the `rank` property (number of array legs per site; numpy bookkeeping not interpreted)
            o = args[0]
            nodes = o.fields['nodes']
            if not nodes:
                return None
            r0 = nodes[0].arr.rank + (0 if o.fields['left_edge'] is not None else 1)
            if len(nodes) == 1:
                r0 += 0 if o.fields['right_edge'] is not None else 1
            return r0 - 2
        R.models['backends.node_array.NodeArray.rank'] = m_rank
        R.model_properties.add('backends.node_array.NodeArray.rank')
        agg = {}

        def note(name, ok, info):
            a = agg.setdefault(name, {'ok': True, 'n': 0, 'first': None})
            a['n'] += 1
            if not ok and a['ok']:
                a['ok'], a['first'] = False, info
        for n in (1, 2, 3, 4):
            for rank in (1, 2):
                for left in (False, True):
                    for right in (False, True):
                        for fi in range(-n - 1, n + 1):
                            for ti in range(-n - 1, n + 1):
                                if tier == 'quick' and n == 4 and rank == 2 and (left or not right):
                                    continue
                                self.one(repo, R, fref, ctor, n, rank, left, right, fi, ti, timeout_ms, note, res)
        for name, a in sorted(agg.items()):
            info = {'configurations': a['n'], 'first failing': a['first']}
            res['obligations'].append({'name': name, 'backend': 'tnnorm', 'flags': res['flags'], 'info': info, 'model': info, 'pc_sat': 'sat',
                                       'result': 'discharged' if a['ok'] else 'refuted', 'seconds': 0.0})
        res['seconds'] = round(time.time() - t0, 3)
        return res

    def one(self, repo, R, fref, ctor, n, rank, left, right, fi, ti, timeout_ms, note, res):
        cfg = {'sites': n, 'rank': rank, 'left': left, 'right': right, 'from_index': fi, 'to_index': ti}
        Vv.reset_fresh()
        ip = Interp(repo, R, [], solver_timeout_ms=timeout_ms)
        try:
            tensors = []
            for i in range(n):
                r = rank + (1 if (i > 0 or left) else 0) + (1 if (i < n - 1 or right) else 0)
                tensors.append(TArr.sym('A%d' % i, r))
            na = ip.call(ctor, [tensors], {'left': left, 'right': right, 'name': 'array'})
            before = network_value(na)
            ms, me, rel = Int('max_singular_values'), Real('max_truncation_err'), Bool('relative')
            raised = None
            try:
                ip.call(fref, [na], {'from_index': fi, 'to_index': ti, 'max_singular_values': ms, 'max_truncation_err': me, 'relative': rel})
            except PyRaise as pr:
                raised = pr.exc.typ
        except Unsupported as u:
            res['undecided'].append('unsupported construct in svd_sweep %s: %s' % (cfg, u))
            return
        res['paths'] += 1
        f_, t_ = (n + fi if fi < 0 else fi), (n + ti if ti < 0 else ti)
        bad_index = not (0 <= f_ < n and 0 <= t_ < n)
        note('svd/index-errors', (raised == 'IndexError') == bad_index and raised in (None, 'IndexError'), dict(cfg, raised=raised))
        if raised is not None or bad_index:
            return
        calls = ip.ghost.get('svd_calls', [])
        note('svd/count', len(calls) == abs(t_ - f_), dict(cfg, factorisations=len(calls), bonds=abs(t_ - f_)))
        okp = all(c.get('max_singular_values') is ms and c.get('max_truncation_err') is me and c.get('relative') is rel for c in calls)
        note('svd/parameters', okp, dict(cfg, calls=[{k: repr(v) for k, v in c.items()} for c in calls][:3]))
        why = representation_ok(na)
        note('svd/representation', not why, dict(cfg, why=why[:3]))
        after = network_value(na) if not why else None
        note('svd/network', after is not None and before is not None and equal(after, before), dict(cfg, before=repr(before), after=repr(after)))


def targets(prop, replay_func=None):
    return [SvdSweepTarget(prop, replay_func)]


# ---- zip_up / contract / apply_vector / apply_matrix / copy: the array after the call IS "self with the other array contracted on"
def _xor(e1, e2):
    return e1.pv_binop(None, 'xor', e2)


def _contract_all(nodes):
    c = nodes[0]
    rest = list(nodes[1:])
    while rest:
        k = next((i for i, n in enumerate(rest) if any((not e.is_dangling()) and any(m is n for m, _ in e.ends) for e in c.edges)), 0)
        c = contract_between(c, rest.pop(k))
    return c


def expected_joined(A, B, axes, li, ri, keep_b_legs):
    """value of A with B contracted onto sites li..ri along the axis pairs; open legs: left, per site (A's remaining array legs, then B's), right"""
    fa, fb = A.fields, B.fields
    ndA, edA = tn_copy(list(fa['nodes']))
    ndB, edB = tn_copy(list(fb['nodes']))
    order = []
    le = edA[fa['left_edge']] if fa['left_edge'] is not None else (edB[fb['left_edge']] if fb['left_edge'] is not None else None)
    if le is not None:
        order.append(le)
    for ia in range(len(fa['nodes'])):
        ea = [edA[e] for e in fa['array_edges'][ia]]
        ib = ia - li
        if 0 <= ib < len(fb['nodes']) and li <= ia <= ri:
            eb = [edB[e] for e in fb['array_edges'][ib]]
            used_a, used_b = set(), set()
            for ax_a, ax_b in axes:
                _xor(ea[ax_a], eb[ax_b])
                used_a.add(ax_a)
                used_b.add(ax_b)
            order += [e for k, e in enumerate(ea) if k not in used_a]
            if keep_b_legs:
                order += [e for k, e in enumerate(eb) if k not in used_b]
        else:
            order += ea
    re_ = edA[fa['right_edge']] if fa['right_edge'] is not None else (edB[fb['right_edge']] if fb['right_edge'] is not None else None)
    if re_ is not None:
        order.append(re_)
    c = _contract_all([ndA[n] for n in fa['nodes']] + [ndB[n] for n in fb['nodes']])
    if sorted(map(id, order)) != sorted(map(id, c.edges)):
        return None
    perm = [next(i for i, e in enumerate(c.edges) if e is x) for x in order]
    return c.arr.permute(perm)


class ZipTarget:
    """NodeArray.zip_up and NodeArray.contract on arrays of free tensors (1..3 sites, MPS/MPO rank, with/without dangling legs, every
    position and both directions, copy in {True, False}); tensornetwork's SVD as an exact factorisation, its greedy contractor as
    "contract all given nodes".  Calls the function rejects (assertions on legs / lengths) are not cases of the contract."""

    def __init__(self, prop, which, replay_func=None):
        self.prop, self.which, self.name = prop, which, 'na/%s' % which
        self.qualname = 'backends.node_array.NodeArray.%s' % which
        self.replay_func = replay_func

    def replay(self, ob):
        return {'func': self.replay_func, 'inputs': {'obligation': ob['name']}} if self.replay_func else None

    def run(self, timeout_ms, tier):
        t0 = time.time()
        repo = Repo()
        res = {'target': self.name, 'function': self.qualname, 'property': self.prop, 'paths': 0, 'obligations': [], 'undecided': [], 'errors': [],
               'flags': ['FREE_TENSOR_SYMBOLS', 'SVD_AS_EXACT_FACTORISATION', 'ENUMERATED_NUMBER_OF_SITES[1..3]'], 'lib_pure': [],
               'lib_used': ['tensornetwork.Node, ^, @, copy, contractors.greedy, split_node_full_svd (contracts)'], 'functions_extra': []}
        fref = repo.resolve(self.qualname)
        ctor = repo.resolve('backends.node_array.NodeArray')
        if fref is None or ctor is None:
            res['undecided'].append('contract target missing: %s' % self.qualname)
            return res
        res['functions_extra'].append(describe(fref))
        R = Registry()
        tnnorm.install(R)
        R.models['backends.node_array.NodeArray.rank'] = _rank_model
        R.model_properties.add('backends.node_array.NodeArray.rank')
        agg, accepted = {}, [0]

        def note(name, ok, info):
            a = agg.setdefault(name, {'ok': True, 'n': 0, 'first': None})
            a['n'] += 1
            if not ok and a['ok']:
                a['ok'], a['first'] = False, info
        zipm = self.which == 'zip_up'
        for n in (1, 2, 3):
            for m in range(1, n + 1):
                for ra in ((1, 2) if zipm else (1,)):
                    for rb in ((1, 2) if zipm else (1,)):
                        if zipm and ra + rb - 2 <= 0:
                            continue
                        for la, rga, lb, rgb in [(a, b, c, d) for a in (False, True) for b in (False, True) for c in (False, True) for d in (False, True)]:
                            for (li_arg, ri_arg) in self.positions(n, m):
                                for direction in ('right', 'left'):
                                    for cp in (True, False):
                                        if tier == 'quick' and n == 3 and (ra == 2 and rb == 2 or (la and rga) or (direction, cp) not in (('left', False), ('right', True))):
                                            continue
                                        self.one(repo, R, fref, ctor, dict(sites=n, other_sites=m, rank=ra, other_rank=rb, left=la, right=rga, other_left=lb,
                                                                           other_right=rgb, left_index=li_arg, right_index=ri_arg, direction=direction, copy=cp),
                                                 timeout_ms, note, res, accepted)
        note('%s/cases-accepted' % self.which, accepted[0] >= 50, {'accepted': accepted[0]})
        for name, a in sorted(agg.items()):
            info = {'configurations': a['n'], 'first failing': a['first']}
            res['obligations'].append({'name': name, 'backend': 'tnnorm', 'flags': res['flags'], 'info': info, 'model': info, 'pc_sat': 'sat',
                                       'result': 'discharged' if a['ok'] else 'refuted', 'seconds': 0.0})
        res['seconds'] = round(time.time() - t0, 3)
        return res

    @staticmethod
    def positions(n, m):
        out = [(None, -1), (0, None), (0, m - 1), (n - m, -1)]
        if n == m:
            out.append((None, None))
        if n - m >= 2:
            out.append((1, None))
        seen, res = set(), []
        for p in out:
            if p not in seen:
                seen.add(p)
                res.append(p)
        return res

    def pre(self, cfg):
        """the calls the function is meant for (documented pictures and assertion messages)"""
        n, m = cfg['sites'], cfg['other_sites']
        li, ri = cfg['left_index'], cfg['right_index']
        if li is None and ri is None:
            if m != n:
                return None
            _li, _ri = 0, n - 1
        elif li is None:
            _ri = ri % n
            _li = _ri - m + 1
        elif ri is None:
            _li = li % n
            _ri = _li + m - 1
        else:
            _li, _ri = li % n, ri % n
        if not (0 <= _li <= _ri < n and _ri - _li + 1 == m):
            return None
        if cfg['other_left'] and (_li != 0 or cfg['left']):
            return None
        if cfg['other_right'] and (_ri != n - 1 or cfg['right']):
            return None
        if self.which == 'contract':
            # the collapsed site is merged into its neighbour in the stated direction (or the whole array is covered, direction right)
            if cfg['direction'] == 'right' and not (_ri < n - 1 or (_li == 0 and _ri == n - 1)):
                return None
            if cfg['direction'] == 'left' and not _li > 0:
                return None
        return _li, _ri

    def one(self, repo, R, fref, ctor, cfg, timeout_ms, note, res, accepted):
        n, m = cfg['sites'], cfg['other_sites']
        span = self.pre(cfg)
        if span is None:
            return
        _li, _ri = span
        Vv.reset_fresh()
        ip = Interp(repo, R, [], solver_timeout_ms=timeout_ms)

        def build(prefix, k, rank, left, right):
            ts = []
            for i in range(k):
                r = rank + (1 if (i > 0 or left) else 0) + (1 if (i < k - 1 or right) else 0)
                ts.append(TArr.sym('%s%d' % (prefix, i), r))
            return ip.call(ctor, [ts], {'left': left, 'right': right, 'name': prefix})
        try:
            A = build('A', n, cfg['rank'], cfg['left'], cfg['right'])
            B = build('B', m, cfg['other_rank'], cfg['other_left'], cfg['other_right'])
            li, ri = cfg['left_index'], cfg['right_index']
            want = expected_joined(A, B, [(0, 0)], _li, _ri, self.which == 'zip_up')
            b_nodes_before = list(B.fields['nodes'])
            b_value_before = network_value(B)
            ms, me, rel = Int('max_singular_values'), Real('max_truncation_err'), Bool('relative')
            kw = {'axes': [(0, 0)], 'left_index': li, 'right_index': ri, 'direction': cfg['direction'], 'copy': cfg['copy']}
            if self.which == 'zip_up':
                kw.update({'max_singular_values': ms, 'max_truncation_err': me, 'relative': rel})
            raised = None
            try:
                ip.call(fref, [A, B], kw)
            except PyRaise as pr:
                raised = pr.exc.typ
        except Unsupported as u:
            res['undecided'].append('unsupported construct in %s %s: %s' % (self.which, cfg, u))
            return
        res['paths'] += 1
        note('%s/accepts-the-documented-calls' % self.which, raised is None, dict(cfg, raised=raised))
        if raised is not None:
            return
        accepted[0] += 1
        w = self.which
        why = representation_ok(A)
        note('%s/representation' % w, not why, dict(cfg, why=why[:3]))
        got = network_value(A) if not why else None
        note('%s/network' % w, got is not None and want is not None and equal(got, want), dict(cfg, after=repr(got), required=repr(want)))
        if w == 'zip_up':
            calls = ip.ghost.get('svd_calls', [])
            okp = all(c.get('max_singular_values') is ms and c.get('max_truncation_err') is me and c.get('relative') is rel for c in calls)
            note('zip_up/parameters', okp and len(calls) == m - 1, dict(cfg, factorisations=len(calls), expected=m - 1))
            note('zip_up/length-kept', len(A.fields['nodes']) == n, dict(cfg, sites_after=len(A.fields['nodes'])))
        else:
            note('contract/length', len(A.fields['nodes']) == max(1, n - m), dict(cfg, sites_after=len(A.fields['nodes'])))
        if cfg['copy']:
            same = list(B.fields['nodes']) == b_nodes_before and all(x is y for x, y in zip(B.fields['nodes'], b_nodes_before))
            vb = network_value(B)
            note('%s/copy-leaves-the-other-array' % w, same and vb is not None and b_value_before is not None and equal(vb, b_value_before), cfg)


def _rank_model_impl(ip, args, kw):
    o = args[0]
    nodes = o.fields['nodes']
    if not nodes:
        return None
    r0 = nodes[0].arr.rank + (0 if o.fields['left_edge'] is not None else 1)
    if len(nodes) == 1:
        r0 += 0 if o.fields['right_edge'] is not None else 1
    return r0 - 2


_rank_model = model(_rank_model_impl)


class ApplyTarget:
    """apply_vector (a vector contracted into a dangling end leg) and copy() on arrays of 1..3 sites"""

    def __init__(self, prop, replay_func=None):
        self.prop, self.name, self.qualname = prop, 'na/apply-and-copy', 'backends.node_array.NodeArray.apply_vector'
        self.replay_func = replay_func

    def replay(self, ob):
        return {'func': self.replay_func, 'inputs': {'obligation': ob['name']}} if self.replay_func else None

    def run(self, timeout_ms, tier):
        t0 = time.time()
        repo = Repo()
        res = {'target': self.name, 'function': 'backends.node_array.NodeArray.apply_vector/apply_matrix/copy', 'property': self.prop, 'paths': 0,
               'obligations': [], 'undecided': [], 'errors': [], 'flags': ['FREE_TENSOR_SYMBOLS', 'ENUMERATED_NUMBER_OF_SITES[1..3]'], 'lib_pure': [],
               'lib_used': ['tensornetwork.Node, ^, contract, copy (contracts)'], 'functions_extra': []}
        ctor = repo.resolve('backends.node_array.NodeArray')
        fns = {k: repo.resolve('backends.node_array.NodeArray.' + k) for k in ('apply_vector', 'apply_matrix', 'copy')}
        if ctor is None or any(v is None for v in fns.values()):
            res['undecided'].append('contract target missing: NodeArray.apply_vector/apply_matrix/copy')
            return res
        res['functions_extra'] += [describe(f) for f in fns.values()]
        R = Registry()
        tnnorm.install(R)
        R.models['backends.node_array.NodeArray.rank'] = _rank_model
        R.model_properties.add('backends.node_array.NodeArray.rank')
        agg = {}

        def note(name, ok, info):
            a = agg.setdefault(name, {'ok': True, 'n': 0, 'first': None})
            a['n'] += 1
            if not ok and a['ok']:
                a['ok'], a['first'] = False, info
        for n in (1, 2, 3):
            for rank in (1, 2):
                for left in (False, True):
                    for right in (False, True):
                        for op in ('apply_vector', 'copy'):      # (apply_matrix: unused by the library; it keeps a stale edge -- see DESIGN 8.15)
                            for side in ((True, False) if op != 'copy' else (None,)):
                                cfg = {'sites': n, 'rank': rank, 'left': left, 'right': right, 'operation': op, 'at the left end': side}
                                Vv.reset_fresh()
                                ip = Interp(repo, R, [], solver_timeout_ms=timeout_ms)
                                try:
                                    ts = [TArr.sym('A%d' % i, rank + (1 if (i > 0 or left) else 0) + (1 if (i < n - 1 or right) else 0)) for i in range(n)]
                                    A = ip.call(ctor, [ts], {'left': left, 'right': right, 'name': 'A'})
                                    before = network_value(A)
                                    raised, out = None, None
                                    x = TArr.sym('X', 1 if op == 'apply_vector' else 2)
                                    try:
                                        out = ip.call(fns[op], [A] + ([] if op == 'copy' else [x]), {} if op == 'copy' else {'left': side})
                                    except PyRaise as pr:
                                        raised = pr.exc.typ
                                except Unsupported as u:
                                    res['undecided'].append('unsupported construct in %s %s: %s' % (op, cfg, u))
                                    continue
                                res['paths'] += 1
                                if op == 'copy':
                                    ok = raised is None and out is not None and not representation_ok(out) and equal(network_value(out), before) and \
                                        not any(a is b for a, b in zip(out.fields['nodes'], A.fields['nodes'])) and not representation_ok(A) and equal(network_value(A), before)
                                    note('copy/equal-and-separate', bool(ok), cfg)
                                    continue
                                has_leg = left if side else right
                                note('%s/rejects-iff-no-dangling-leg' % op, (raised == 'AssertionError') == (not has_leg) and raised in (None, 'AssertionError'), dict(cfg, raised=raised))
                                if raised is not None or not has_leg:
                                    continue
                                why = representation_ok(A)
                                got = network_value(A) if not why else None
                                # expected: the end leg contracted with X (vector: the leg disappears; matrix: replaced by X's second leg)
                                b = before.relabel()
                                xx = x.relabel()
                                pos = 0 if side else b.rank - 1
                                ident = {xx.out[0]: b.out[pos]}
                                xf = [(s_, tuple(ident.get(l, l) for l in ls)) for s_, ls in xx.factors]
                                outl = list(b.out)
                                if op == 'apply_vector':
                                    del outl[pos]
                                else:
                                    outl[pos] = xx.out[1]
                                want = TArr(b.factors + xf, outl, b.coeff + xx.coeff)
                                note('%s/network' % op, not why and got is not None and equal(got, want), dict(cfg, why=why[:2], after=repr(got), required=repr(want)))
                                gone = A.fields['left_edge' if side else 'right_edge']
                                note('%s/leg-bookkeeping' % op, (gone is None) if op == 'apply_vector' else (gone is not None), cfg)
        for name, a in sorted(agg.items()):
            info = {'configurations': a['n'], 'first failing': a['first']}
            res['obligations'].append({'name': name, 'backend': 'tnnorm', 'flags': res['flags'], 'info': info, 'model': info, 'pc_sat': 'sat',
                                       'result': 'discharged' if a['ok'] else 'refuted', 'seconds': 0.0})
        res['seconds'] = round(time.time() - t0, 3)
        return res


_svd_targets = targets


def targets(prop, replay_func=None):
    ops = 'node_array_operations' if replay_func else None
    return _svd_targets(prop, replay_func) + [ZipTarget(prop, 'zip_up', ops), ZipTarget(prop, 'contract', ops), ApplyTarget(prop, ops)]
