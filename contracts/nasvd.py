"""NodeArray.svd_sweep — compression sweeps of the MPS/MPO arrays (engine: pyvc + tnnorm, SVD as an exact factorisation).

For arrays of 1..4 sites (free tensor symbols of any dimensions), with and without dangling left/right legs, MPS and MPO rank, and every
pair (from_index, to_index), the REAL svd_sweep is run with tensornetwork.split_node_full_svd replaced by its contract (an exact
factorisation node = u s vh along the stated edge partition, the truncation parameters recorded):

  svd/parameters     every factorisation of the sweep gets exactly the caller's max_singular_values, max_truncation_err and relative
                     (truncation relative to the largest singular value is what TEMPO and PT-TEMPO ask for, in BOTH sweep directions)
  svd/count          one factorisation per bond between from_index and to_index
  svd/network        with nothing truncated the contracted network is unchanged (same tensor, same open legs in the same order)
  svd/representation afterwards bond_edges[i] still joins nodes[i] and nodes[i+1]; array/left/right edges still sit on their nodes
  svd/index-errors   IndexError exactly for from/to outside the array
Bounded in the NUMBER OF SITES (1..4, enumerated); unbounded in every dimension."""
import time
import z3
from .common import *
from pyvc import tnnorm
from pyvc.tnnorm import TArr, TNode, contract_between, tn_copy, equal
from pyvc.interp import Interp
from pyvc.modules import Repo, describe
from pyvc import values as Vv


def network_value(na):
    nodes = list(na.fields['nodes'])
    nd, ed = tn_copy(nodes)
    c = nd[nodes[0]]
    for n in nodes[1:]:
        c = contract_between(c, nd[n])
    order = []
    if na.fields['left_edge'] is not None:
        order.append(ed[na.fields['left_edge']])
    for es in na.fields['array_edges']:
        order += [ed[e] for e in es]
    if na.fields['right_edge'] is not None:
        order.append(ed[na.fields['right_edge']])
    if sorted(map(id, order)) != sorted(map(id, c.edges)):
        return None
    perm = [next(i for i, e in enumerate(c.edges) if e is x) for x in order]
    return c.arr.permute(perm)


def representation_ok(na):
    f = na.fields
    nodes = f['nodes']
    why = []
    for i, e in enumerate(f['bond_edges']):
        ends = [n for n, _ in e.ends]
        if not (len(ends) == 2 and any(n is nodes[i] for n in ends) and any(n is nodes[i + 1] for n in ends)):
            why.append('bond_edges[%d] does not join nodes[%d] and nodes[%d]' % (i, i, i + 1))
    for i, es in enumerate(f['array_edges']):
        for e in es:
            if not (e.is_dangling() and e.ends[0][0] is nodes[i]):
                why.append('an array edge of site %d is not a dangling edge of nodes[%d]' % (i, i))
    for nm, k in (('left_edge', 0), ('right_edge', -1)):
        e = f[nm]
        if e is not None and not (e.is_dangling() and e.ends[0][0] is nodes[k]):
            why.append('%s is not a dangling edge of nodes[%d]' % (nm, k))
    return why


class SvdSweepTarget:
    def __init__(self, prop, replay_func=None):
        self.prop, self.name, self.qualname = prop, 'na/svd_sweep', 'backends.node_array.NodeArray.svd_sweep'
        self.replay_func = replay_func

    def replay(self, ob):
        return {'func': self.replay_func, 'inputs': {'obligation': ob['name']}} if self.replay_func else None

    def run(self, timeout_ms, tier):
        t0 = time.time()
        repo = Repo()
        res = {'target': self.name, 'function': self.qualname, 'property': self.prop, 'paths': 0, 'obligations': [], 'undecided': [], 'errors': [],
               'flags': ['FREE_TENSOR_SYMBOLS', 'SVD_AS_EXACT_FACTORISATION', 'ENUMERATED_NUMBER_OF_SITES[1..4]'], 'lib_pure': [],
               'lib_used': ['tensornetwork.Node, ^, @, split_node_full_svd (contract: exact factorisation)'], 'functions_extra': []}
        fref = repo.resolve(self.qualname)
        ctor = repo.resolve('backends.node_array.NodeArray')
        if fref is None or ctor is None:
            res['undecided'].append('contract target missing: %s' % self.qualname)
            return res
        res['functions_extra'].append(describe(fref))
        R = Registry()
        tnnorm.install(R)

        @model
        def m_rank(ip, args, kw):
            # contract of the `rank` property (number of array legs per site; numpy bookkeeping not interpreted)
            o = args[0]
            nodes = o.fields['nodes']
            if not nodes:
                return None
            r0 = nodes[0].arr.rank + (0 if o.fields['left_edge'] is not None else 1)
            if len(nodes) == 1:
                r0 += 0 if o.fields['right_edge'] is not None else 1
            return r0 - 2
        R.models['backends.node_array.NodeArray.rank'] = m_rank
        R.model_properties.add('backends.node_array.NodeArray.rank')
        agg = {}

        def note(name, ok, info):
            a = agg.setdefault(name, {'ok': True, 'n': 0, 'first': None})
            a['n'] += 1
            if not ok and a['ok']:
                a['ok'], a['first'] = False, info
        for n in (1, 2, 3, 4):
            for rank in (1, 2):
                for left in (False, True):
                    for right in (False, True):
                        for fi in range(-n - 1, n + 1):
                            for ti in range(-n - 1, n + 1):
                                if tier == 'quick' and n == 4 and rank == 2 and (left or not right):
                                    continue
                                self.one(repo, R, fref, ctor, n, rank, left, right, fi, ti, timeout_ms, note, res)
        for name, a in sorted(agg.items()):
            info = {'configurations': a['n'], 'first failing': a['first']}
            res['obligations'].append({'name': name, 'backend': 'tnnorm', 'flags': res['flags'], 'info': info, 'model': info, 'pc_sat': 'sat',
                                       'result': 'discharged' if a['ok'] else 'refuted', 'seconds': 0.0})
        res['seconds'] = round(time.time() - t0, 3)
        return res

    def one(self, repo, R, fref, ctor, n, rank, left, right, fi, ti, timeout_ms, note, res):
        cfg = {'sites': n, 'rank': rank, 'left': left, 'right': right, 'from_index': fi, 'to_index': ti}
        Vv.reset_fresh()
        ip = Interp(repo, R, [], solver_timeout_ms=timeout_ms)
        try:
            tensors = []
            for i in range(n):
                r = rank + (1 if (i > 0 or left) else 0) + (1 if (i < n - 1 or right) else 0)
                tensors.append(TArr.sym('A%d' % i, r))
            na = ip.call(ctor, [tensors], {'left': left, 'right': right, 'name': 'array'})
            before = network_value(na)
            ms, me, rel = Int('max_singular_values'), Real('max_truncation_err'), Bool('relative')
            raised = None
            try:
                ip.call(fref, [na], {'from_index': fi, 'to_index': ti, 'max_singular_values': ms, 'max_truncation_err': me, 'relative': rel})
            except PyRaise as pr:
                raised = pr.exc.typ
        except Unsupported as u:
            res['undecided'].append('unsupported construct in svd_sweep %s: %s' % (cfg, u))
            return
        res['paths'] += 1
        f_, t_ = (n + fi if fi < 0 else fi), (n + ti if ti < 0 else ti)
        bad_index = not (0 <= f_ < n and 0 <= t_ < n)
        note('svd/index-errors', (raised == 'IndexError') == bad_index and raised in (None, 'IndexError'), dict(cfg, raised=raised))
        if raised is not None or bad_index:
            return
        calls = ip.ghost.get('svd_calls', [])
        note('svd/count', len(calls) == abs(t_ - f_), dict(cfg, factorisations=len(calls), bonds=abs(t_ - f_)))
        okp = all(c.get('max_singular_values') is ms and c.get('max_truncation_err') is me and c.get('relative') is rel for c in calls)
        note('svd/parameters', okp, dict(cfg, calls=[{k: repr(v) for k, v in c.items()} for c in calls][:3]))
        why = representation_ok(na)
        note('svd/representation', not why, dict(cfg, why=why[:3]))
        after = network_value(na) if not why else None
        note('svd/network', after is not None and before is not None and equal(after, before), dict(cfg, before=repr(before), after=repr(after)))


def targets(prop, replay_func=None):
    return [SvdSweepTarget(prop, replay_func)]
