"""C14 — splitting or repeating compute calls never changes the result.

Each stateful class gets an abstract state and a representation invariant ("canonical(k)");
each public method a contract over it.  Numerical kernels are uninterpreted: only how often
and with which arguments the network is advanced matters.
"""
import z3
from .common import *
from . import dyn, tempo_sm

PROP = 'C14'
IntS, RealS, BoolS = z3.IntSort(), z3.RealSort(), z3.BoolSort()

# =====================================================================================
# A. TempoBackend.compute_step / initialize  (real back end; network = ghost field `net`)
Adv = z3.Function('Adv', V, IntS, V, V, V)          # net' = Adv(net, step, prop1, prop2)
Read = z3.Function('ReadState', V, V)
Pa = z3.Function('Prop1', IntS, V)
Pb = z3.Function('Prop2', IntS, V)


def backend_registry():
    R = Registry()

    @model
    def compute_system_step(ip, args, kw):
        self_, step, p1, p2 = args
        ip.log.append(('system-step', step, p1, p2))
        self_.fields['net'] = Adv(self_.fields['net'], to_int(step), p1, p2)
        return Read(self_.fields['net'])

    @model
    def initialize_mps_mpo(ip, args, kw):
        args[0].fields['net'] = z3.Const('Net0', V)
        ip.log.append(('init-net',))
    R.models['backends.tempo_backend.BaseTempoBackend.compute_system_step'] = compute_system_step
    R.models['backends.tempo_backend.BaseTempoBackend.initialize_mps_mpo'] = initialize_mps_mpo
    return R


def scen_backend_step(ip, repo):
    s = Int('s')
    ip.assume(s >= 0)
    net = Vc('net')

    @model
    def propagators(ip2, a2, k2):
        ip2.log.append(('propagators', a2[0]))
        if ip2.may_raise('propagators-raises'):
            ip2.log.append(('user-raise', 'propagators'))
            raise PyRaise(ExcVal('UserError', ('hamiltonian',)))
        return Pa(to_int(a2[0])), Pb(to_int(a2[0]))
    self_ = mkobj(repo, 'backends.tempo_backend.TempoBackend', _step=s, _propagators=propagators,
                  _state=Vc('state'), net=net)
    return {'args': [self_], 'self': self_, 's': s, 'net': net, 'state0': self_.fields['_state'],
            'inputs': {'step': s}}


def post_backend_step(ip, ctx, out):
    self_, s, net = ctx['self'], ctx['s'], ctx['net']
    if out.raised('UserError'):
        ip.prove('tempo/exc-atomic', z3.And(self_.fields['_step'] == s, self_.fields['net'] == net,
                                            self_.fields['_state'] == ctx['state0']))
        return
    if not expect_no_other_exception(ip, out):
        return
    step, state = out.value
    want_net = Adv(net, s + 1, Pa(s), Pb(s))
    ip.prove('tempo/step-post', z3.And(self_.fields['_step'] == s + 1, step == s + 1,
                                       self_.fields['net'] == want_net))
    ip.prove('c02/propagator-index', z3.BoolVal(any(e[0] == 'propagators' and z3.is_true(z3.simplify(e[1] == s)) for e in ip.log)))
    ip.prove('tempo/step-returns-state', state == Read(want_net))


def scen_backend_init(ip, repo):
    self_ = mkobj(repo, 'backends.tempo_backend.TempoBackend', _step=None, _initial_state=Vc('rho0'), net=None)
    return {'args': [self_], 'self': self_, 'inputs': {}}


def post_backend_init(ip, ctx, out):
    if not expect_no_other_exception(ip, out):
        return
    step, state = out.value
    self_ = ctx['self']
    ip.prove('tempo/init-post', z3.And(to_z3(step) == 0, to_z3(self_.fields['_step']) == 0,
                                       self_.fields['net'] == z3.Const('Net0', V), state == Vc('rho0')))


# =====================================================================================
# B. Tempo.compute  (client of the back-end contract)
def post_tempo_compute(ip, ctx, out):
    g, self_ = ctx['g'], ctx['self']
    be, d = self_.fields['_backend_instance'], self_.fields['_dynamics']
    start, dt, T = g['start'], g['dt'], g['T']
    k0 = g.get('s0_pre')
    if out.raised('UserError') or out.returned:
        k = be.fields['step']
        if k is None:
            return ip.prove('tempo/failed-before-init-leaves-fresh-object', z3.BoolVal(d is None))
        times, states = d.fields['_times'], d.fields['_states']
        j = fresh_int('j')
        canonical = z3.And(times.length == k + 1, states.length == k + 1,
                           z3.Implies(z3.And(j >= 0, j <= k),
                                      z3.And(times.fn(j) == tempo_sm.label(start, dt, j),
                                             states.fn(j) == tempo_sm.stored_state(j, g['dim']))))
        if out.returned:
            ip.prove('tempo/canonical-after-return', canonical)
            # number of steps reached: max(k0, Steps(T)); Steps from the contract of C13
            q = (T - start) / dt
            lo = z3.If(k0 is not None and True, 0, 0)
            base = k0 if k0 is not None else z3.IntVal(0)
            near = round_half_even(q)
            steps_a, steps_b = near, trunc(q)
            ip.prove('tempo/compute-post', z3.Or(k == z3.If(steps_a > base, steps_a, base),
                                                 k == z3.If(steps_b > base, steps_b, base)))
            if k0 is not None:
                ip.prove('tempo/noop-when-reached',
                         z3.Implies(z3.And(steps_a <= k0, steps_b <= k0), k == k0))
                ip.prove('tempo/never-goes-back', k >= k0)
        else:
            ip.prove('tempo/canonical-after-user-exception', canonical)
            if k0 is not None:
                ip.prove('tempo/never-goes-back', k >= k0)
        return
    ip.prove('path-accounted', z3.BoolVal(True))    # AssertionError from shape checks etc.


# =====================================================================================
# D. PtTempo.compute / get_process_tensor, PtTempoBackend.compute_step
def pt_registry():
    R = Registry()
    dyn.make_progress_models(R)

    @model
    def initialize(ip, args, kw):
        o = args[0]
        if ip.may_raise('initialize-raises'):
            ip.log.append(('user-raise', 'influence'))
            raise PyRaise(ExcVal('UserError', ('correlations',)))
        ip.log.append(('pt-initialize',))
        o.fields['step'] = z3.IntVal(1)

    @model
    def compute_step(ip, args, kw):
        o = args[0]
        s, N = o.fields['step'], o.fields['num_steps']
        # precondition of the back end: there is a step left to take
        ip.prove('pt/compute_step-requires-incomplete', s < N)
        if ip.may_raise('compute_step-raises'):
            ip.log.append(('user-raise', 'influence'))
            raise PyRaise(ExcVal('UserError', ('correlations',)))
        o.fields['step'] = s + 1
        ip.log.append(('pt-step', s + 1))
        return s + 1 < N

    @model
    def update_process_tensor(ip, args, kw):
        o = args[0]
        ip.prove('pt/update-requires-complete', o.fields['step'] >= o.fields['num_steps'])
        ip.log.append(('pt-update',))
        o.fields['process_tensor'].fields['length'] = o.fields['num_steps']

    @model
    def pt_len(ip, args, kw):
        return args[0].fields['length']
    R.models['PtBackend.initialize'] = initialize
    R.models['PtBackend.compute_step'] = compute_step
    R.models['PtBackend.update_process_tensor'] = update_process_tensor
    R.models['PTObj.__len__'] = pt_len

    def template(ip, frame, k):
        g = ip.ghost['pt']
        se = g['s_entry']
        return {'@facts': [k >= 0, se + k <= g['N'], z3.Implies(k >= 1, se + k < g['N'])],
                'self._backend_instance.step': se + k}
    R.invariants[('pt_tempo.PtTempo.compute', 0)] = LoopInv(template, 'pt-loop')

    def stmt_hook(ip, st, frame):
        # remember the step counter at loop entry (ghost)
        # (at the statement that encloses or is the step loop -- `with progress(..)`, `try:` or the loop itself -- whichever comes
        # first outside the loop; the ghost must not depend on how the progress reporter is entered)
        import ast
        if isinstance(st, (ast.With, ast.Try, ast.While, ast.For)) and frame.qualname == 'pt_tempo.PtTempo.compute' \
                and not ip.ghost['pt'].get('loop_reached'):
            step = ip.lookup_name('self', frame).fields['_backend_instance'].fields['step']
            if step is not None:
                ip.ghost['pt']['s_entry'] = step
            if isinstance(st, (ast.While, ast.For)):
                ip.ghost['pt']['loop_reached'] = True
    R.stmt_hook = stmt_hook
    return R


def scen_pt(state):
    """state: 'fresh' (step None) | 'partial' (1 <= step < N) | 'complete' (step == N)"""
    def scen(ip, repo):
        N = Int('N')
        ip.assume(N >= 2, 'PtTempo.__init__ asserts num_steps >= 2')
        pt = Obj('PTObj', {'length': z3.IntVal(0)})
        be = Obj('PtBackend', {'step': None, 'num_steps': N, 'process_tensor': pt})
        if state != 'fresh':
            s = Int('s')
            ip.assume(z3.And(s >= 1, s < N) if state == 'partial' else s == N)
            be.fields['step'] = s
        self_ = mkobj(repo, 'pt_tempo.PtTempo', _backend_instance=be, _process_tensor=pt)
        ip.ghost['pt'] = {'N': N}
        return {'args': [self_], 'self': self_, 'be': be, 'N': N, 'state': state, 'pt': pt,
                'inputs': {'N': N, 'step': be.fields['step'] if state != 'fresh' else -1}}
    return scen


def post_pt_compute(ip, ctx, out):
    be, N = ctx['be'], ctx['N']
    if out.raised('UserError'):
        s = be.fields['step']
        ip.prove('pt/exc-leaves-valid-state', z3.BoolVal(True) if s is None else z3.And(s >= 1, s <= N))
        return
    if not expect_no_other_exception(ip, out):
        return
    ip.prove('pt/compute-post', be.fields['step'] == N)
    if ctx['state'] == 'complete':
        ip.prove('pt/idempotent', z3.BoolVal(not any(e[0] in ('pt-step', 'pt-initialize') for e in ip.log)))


def invoke_pt_get_twice(ip, repo, fref, ctx):
    a = ip.call(fref, [ctx['self']], {})
    n1 = len([e for e in ip.log if e[0] == 'pt-update'])
    s1 = len([e for e in ip.log if e[0] == 'pt-step'])
    b = ip.call(fref, [ctx['self']], {})
    return a, b, n1, s1


def post_pt_get(ip, ctx, out):
    if out.raised('UserError'):
        return ip.prove('path-accounted', z3.BoolVal(True))
    if not expect_no_other_exception(ip, out):
        return
    a, b, n1, s1 = out.value
    ups = len([e for e in ip.log if e[0] == 'pt-update'])
    steps = len([e for e in ip.log if e[0] == 'pt-step'])
    ip.prove('pt/get-idempotent', z3.BoolVal(a is b and ups == 1 and n1 == 1 and steps == s1))
    ip.prove('pt/get-complete', z3.And(ctx['be'].fields['step'] == ctx['N'], ctx['pt'].fields['length'] == ctx['N']))


# ---- real PtTempoBackend.compute_step: counter only advanced when the step succeeded
def ptb_registry():
    R = Registry()

    @model
    def na_any(name):
        pass

    def mk(name, ret=None):
        @model
        def f(ip, args, kw):
            ip.log.append(('na', name))
            if name in ('split',):
                return uf('na_split_left', args[0]), uf('na_split_right', args[0])
            return uf('na_' + name, *[a for a in args if is_v(a)])
        return f
    for nm in ('split', 'join', 'NodeArray'):
        R.models['backends.node_array.' + nm] = mk(nm)
    return R


def scen_ptb_step(ip, repo):
    s, N, K = Int('s'), Int('N'), Int('num_infl')
    ip.assume(z3.And(s >= 1, s < N, N >= 2, K >= 1, K <= N))
    dk_max = Int('dkmax')

    @model
    def influence(ip2, a2, k2):
        ip2.log.append(('influence', a2[0]))
        if ip2.may_raise('influence-raises'):
            ip2.log.append(('user-raise', 'influence'))
            raise PyRaise(ExcVal('UserError', ('correlations',)))
        return uf('Infl', to_int(a2[0]))
    mps = Obj('NA', {'tag': 'mps', 'v': Vc('mps0')})
    mpo = Obj('NA', {'tag': 'mpo', 'v': Vc('mpo0')})
    one = Obj('NA', {'tag': 'one', 'v': Vc('one')})
    self_ = mkobj(repo, 'backends.pt_tempo_backend.PtTempoBackend', _step=s, _num_steps=N, _num_infl=K,
                  _dkmax=dk_max, _influence=influence, _mps=mps, _mpo=mpo, _one_na=one,
                  _sum_north_scaled=Vc('sns'), _epsrel=Real('epsrel'), _backend=None)
    return {'args': [self_], 'self': self_, 's': s, 'N': N, 'mps': mps, 'mpo': mpo, 'inputs': {'step': s, 'N': N}}


def ptb_models(R):
    """NodeArray objects: every mutating method is logged (ghost), values are opaque."""
    def mut(name):
        @model
        def f(ip, args, kw):
            o = args[0]
            ip.log.append(('na-mutate', o.fields['tag'], name))
            o.fields['v'] = uf('na_' + name, o.fields['v'])
            return None
        return f
    for nm in ('apply_vector', 'zip_up', 'svd_sweep'):
        R.models['NA.' + nm] = mut(nm)

    @model
    def copy(ip, args, kw):
        return Obj('NA', {'tag': args[0].fields['tag'] + '-copy', 'v': args[0].fields['v']})

    @model
    def right(ip, args, kw):
        return uf('na_right', args[0].fields['v'], sort=BoolS)
    R.models['NA.copy'] = copy
    R.models['NA.right'] = right
    R.model_properties.add('NA.right')

    @model
    def split(ip, args, kw):
        a = args[0]
        ip.log.append(('na-mutate', a.fields['tag'], 'split'))
        return (Obj('NA', {'tag': a.fields['tag'], 'v': uf('na_split_l', a.fields['v'])}),
                Obj('NA', {'tag': 'rest', 'v': uf('na_split_r', a.fields['v'])}))

    @model
    def join(ip, args, kw):
        a, b = args[0], args[1]
        ip.log.append(('na-mutate', a.fields['tag'], 'join'))
        return Obj('NA', {'tag': a.fields['tag'], 'v': uf('na_join', a.fields['v'], b.fields['v'])})

    @model
    def ctor(ip, args, kw):
        return Obj('NA', {'tag': 'new', 'v': uf('na_new', *[x for x in args[0] if is_v(x)])})
    R.models['backends.node_array.split'] = split
    R.models['backends.node_array.join'] = join
    R.models['backends.node_array.NodeArray'] = ctor
    return R


def post_ptb_step(ip, ctx, out):
    self_, s = ctx['self'], ctx['s']
    if out.raised('UserError'):
        mutated = [e for e in ip.log if e[0] == 'na-mutate' and e[1] in ('mps', 'mpo')]
        ip.prove('pt/exc-atomic', z3.And(self_.fields['_step'] == s, z3.BoolVal(not mutated),
                                         z3.BoolVal(self_.fields['_mps'] is ctx['mps'] and self_.fields['_mpo'] is ctx['mpo'])))
        return
    if not expect_no_other_exception(ip, out):
        return
    ip.prove('pt/step-post', z3.And(self_.fields['_step'] == s + 1, to_z3(out.value) == (s + 1 < ctx['N'])))


# =====================================================================================
# E. GibbsTempo.compute
def gibbs_registry():
    R = Registry()
    dyn.make_progress_models(R)
    G = z3.Function('GibbsData', IntS, V)

    @model
    def initialise(ip, args, kw):
        o = args[0]
        o.fields['step'] = z3.IntVal(1)
        o.fields['data'] = [G(0), G(1), G(2)]
        ip.log.append(('gibbs-init',))
        return z3.IntVal(1), G(2)

    @model
    def compute_step(ip, args, kw):
        o = args[0]
        s = o.fields['step'] + 1
        o.fields['step'] = s
        ip.log.append(('gibbs-step', s))
        return s, G(s + 1)
    R.models['TIBackend.initialise'] = initialise
    R.models['TIBackend.compute_step'] = compute_step

    def template(ip, frame, i):
        g = ip.ghost['gibbs']
        s = g['s_entry'] + i
        return {'@facts': [i >= 0], 'self._backend_instance.step': s,
                'self._dynamics._times': Seq(s + 2, lambda j: z3.ToReal(j) * g['dt'], 'list'),
                'self._dynamics._states': Seq(s + 2, lambda j: uf('np_array', G(j)), 'list')}
    R.invariants[('tempo.GibbsTempo.compute', 1)] = LoopInv(template, 'gibbs-loop')

    def stmt_hook(ip, st, frame):
        import ast
        if isinstance(st, (ast.With, ast.Try, ast.While, ast.For)) and frame.qualname == 'tempo.GibbsTempo.compute' \
                and not ip.ghost['gibbs'].get('loop_reached'):
            step = ip.lookup_name('self', frame).fields['_backend_instance'].fields['step']
            if step is not None:
                ip.ghost['gibbs']['s_entry'] = step
            if isinstance(st, (ast.While, ast.For)) and ip.ghost['gibbs'].get('loops_seen', 0) >= 1:
                ip.ghost['gibbs']['loop_reached'] = True
            if isinstance(st, (ast.While, ast.For)):
                ip.ghost['gibbs']['loops_seen'] = ip.ghost['gibbs'].get('loops_seen', 0) + 1
    R.stmt_hook = stmt_hook
    R.ghost_G = G
    return R


def scen_gibbs(fresh):
    def scen(ip, repo):
        n, dt = Int('n_steps'), Real('dt')
        ip.assume(z3.And(n >= 2, dt > 0), 'GibbsParameters: n_steps >= 2')
        params = mkobj(repo, 'tempo.GibbsParameters', _n_steps=n)
        be = Obj('TIBackend', {'step': None, 'data': None})
        self_ = mkobj(repo, 'tempo.GibbsTempo', _parameters=params, _backend_instance=be, _dt=dt,
                      _dynamics=None, _name='gibbs')
        g = {'n': n, 'dt': dt}
        if not fresh:
            s = Int('s')
            ip.assume(z3.And(s >= 1, s <= n - 1))
            be.fields['step'] = s
            G = z3.Function('GibbsData', IntS, V)
            shape = Vc('shape')
            ip.assume(shape != NONE)
            d = mkobj(repo, 'dynamics.Dynamics', _name='d', _description='d', _shape=shape,
                      _times=Seq(s + 2, lambda j: z3.ToReal(j) * dt, 'list'),
                      _states=Seq(s + 2, lambda j: uf('np_array', G(j)), 'list'))
            self_.fields['_dynamics'] = d
            g['s0'] = s
        ip.ghost['gibbs'] = g
        return {'args': [self_], 'self': self_, 'be': be, 'g': g, 'inputs': {'n_steps': n, 'step': g.get('s0', -1)}}
    return scen


def post_gibbs(ip, ctx, out):
    if out.raised('AssertionError'):
        return ip.prove('path-accounted', z3.BoolVal(True))
    if not expect_no_other_exception(ip, out):
        return
    g, be = ctx['g'], ctx['be']
    n = g['n']
    d = ctx['self'].fields['_dynamics']
    ip.prove('gibbs/reaches-beta', z3.And(be.fields['step'] == n - 1, d.fields['_times'].length == n + 1))
    if 's0' in g:
        steps = len([e for e in ip.log if e[0] == 'gibbs-step'])
        ip.prove('gibbs/idempotent', z3.Implies(g['s0'] == n - 1, z3.BoolVal(steps == 0)))


# =====================================================================================
# F. PtTebd
ChainSite = z3.Function('SiteLayer', V, V, V)        # chain' = SiteLayer(chain, gate layer)
ChainNN = z3.Function('NNLayer', V, V, V)
ChainPT = z3.Function('ApplyPTs', V, IntS, V)
CtlPre = z3.Function('ChainPre', IntS, V)            # controls list at a step (NONE if nothing)
CtlPost = z3.Function('ChainPost', IntS, V)
Chain0 = z3.Function('Chain0', V, V)                 # chain built from an AugmentedMPS
ExportF = z3.Function('ExportMPS', V, V)             # AugmentedMPS exported from a chain
ChainAt = z3.Function('ChainAt', IntS, V)            # ghost: canonical chain after step k
L0, L1 = z3.Consts('GateLayer0 GateLayer1', V)


def site_opt(ctl, chain):
    return z3.If(ctl == NONE, chain, ChainSite(chain, uf('GateLayerOf', ctl)))


def tebd_step_expr(k, chain):
    """chain after step k+1 from the chain after step k (property: post controls of step k,
    half chain propagator, PT tensors k+1, half chain propagator, pre controls of step k+1)"""
    c = site_opt(CtlPost(k), chain)
    c = ChainNN(ChainNN(c, L0), L1)
    c = ChainPT(c, k + 1)
    c = ChainNN(ChainNN(c, L0), L1)
    return site_opt(CtlPre(k + 1), c)


def tebd_registry():
    R = Registry()
    dyn.make_progress_models(R)

    @model
    def backend_ctor(ip, args, kw):
        amps = ip.ghost['tebd']['initial_mps_v']
        return Obj('TMps', {'chain': Chain0(amps), 'traces': None})

    @model
    def apply_site(ip, args, kw):
        o, layer = args
        o.fields['chain'] = ChainSite(o.fields['chain'], layer)

    @model
    def apply_nn(ip, args, kw):
        o, layer = args
        o.fields['chain'] = ChainNN(o.fields['chain'], layer)

    @model
    def apply_pts(ip, args, kw):
        o, step = args[0], to_int(args[1])
        o.fields['chain'] = ChainPT(o.fields['chain'], step)

    @model
    def compute_traces(ip, args, kw):
        args[0].fields['traces'] = to_int(args[1])

    @model
    def clear_traces(ip, args, kw):
        args[0].fields['traces'] = None

    def obs(name):
        @model
        def f(ip, args, kw):
            o = args[0]
            if o.fields['traces'] is None:
                ip.raise_('AssertionError')
            return uf('Tebd_' + name, o.fields['chain'], o.fields['traces'])
        return f
    R.models['backends.pt_tebd_backend.PtTebdBackend'] = backend_ctor
    R.models['TMps.apply_site_gate_layer'] = apply_site
    R.models['TMps.apply_nn_gate_layer'] = apply_nn
    R.models['TMps.apply_process_tensors'] = apply_pts
    R.models['TMps.compute_traces'] = compute_traces
    R.models['TMps.clear_traces'] = clear_traces
    for nm in ('get_norm', 'get_bond_dimensions', 'get_density_matrix'):
        R.models['TMps.' + nm] = obs(nm)

    @model
    def tebd_prop(ip, args, kw):
        g = ip.ghost['tebd']
        ip.prove('call/compute_tebd_propagator/half-step', veq(kw['time_step'], g['dt'] / 2))
        return Obj('TebdProp', {'gate_layers': [L0, L1]})
    R.models['mps_mpo.compute_tebd_propagator'] = tebd_prop

    @model
    def get_ss_controls(ip, args, kw):
        o, step, post = args
        ctl = CtlPost(to_int(step)) if post else CtlPre(to_int(step))
        ip.log.append(('controls', 'post' if post else 'pre', to_int(step)))
        if ip.decide(ctl == NONE, 'no-controls'):
            return None
        c0 = uf('ctl_site0', ctl)
        ip.add_pc(c0 != NONE)        # abstraction: the controls of a step, as one non-empty layer
        return [c0, None]
    R.models['ChainCtl.get_single_site_controls'] = get_ss_controls

    @model
    def site_gate(ip, args, kw):
        return uf('SiteGate', *args)

    @model
    def gate_layer(ip, args, kw):
        gates = kw.get('gates')
        # the layer built from the controls list of one step: identify it with GateLayerOf(ctl)
        g0 = gates[0] if gates else None
        if g0 is not None and is_z3(g0) and g0.decl().name() == 'SiteGate' and g0.arg(1).decl().name() == 'ctl_site0':
            return uf('GateLayerOf', g0.arg(1).arg(0))
        return uf('GateLayer', *(gates or []))
    R.models['mps_mpo.SiteGate'] = site_gate
    R.models['mps_mpo.GateLayer'] = gate_layer

    @model
    def pt_bond_dims(ip, args, kw):
        return uf('pt_bond_dims', z3.IntVal(args[0].fields['idx']))
    R.models['PTm.get_bond_dimensions'] = pt_bond_dims

    def template(ip, frame, i):
        g = ip.ghost['tebd']
        k = g['k_entry'] + i
        ip.assume(ChainAt(k + 1) == tebd_step_expr(k, ChainAt(k)), 'definition of ChainAt (recurrence of the property)')
        self_ = ip.lookup_name('self', frame)
        s0 = g['start_step']
        K = to_int(ip.lookup_name('tmp_end_step', frame))
        return {'@facts': [i >= 0, z3.Implies(i >= 1, k - 1 < K)], 'self._step': k, 'self._t_mps.chain': ChainAt(k), 'self._t_mps.traces': None,
                "self._results.time": Seq(k - s0 + 1, lambda j: g['start_time'] + g['dt'] * z3.ToReal(j), 'list'),
                "self._results.norm": Seq(k - s0 + 1, lambda j: uf('Tebd_get_norm', ChainAt(s0 + j), s0 + j), 'list'),
                "self._results.bond_dimensions": Seq(k - s0 + 1, lambda j: uf('Tebd_get_bond_dimensions', ChainAt(s0 + j), s0 + j), 'list')}
    R.invariants[('pt_tebd.PtTebd.compute', 0)] = LoopInv(template, 'tebd-loop')

    def stmt_hook(ip, st, frame):
        import ast
        if isinstance(st, ast.With) and frame.qualname == 'pt_tebd.PtTebd.compute':
            ip.ghost['tebd']['k_entry'] = ip.lookup_name('self', frame).fields['_step']
    R.stmt_hook = stmt_hook
    return R


def tebd_object(ip, repo, fresh, tag=''):
    dt, t0 = Real('dt'), Real('tebd_start_time' + tag)
    s0 = Int('start_step' + tag)
    ip.assume(z3.And(dt > 0, s0 >= 0))
    amps = Vc('initial_mps' + tag)
    params = mkobj(repo, 'pt_tebd.PtTebdParameters', _dt=dt, _epsrel=Real('epsrel'), _order=Int('order'))
    amps_obj = Obj('AMps', {'gammas': uf('gammas', amps), 'lambdas': uf('lambdas', amps)})
    self_ = mkobj(repo, 'pt_tebd.PtTebd', _initial_augmented_mps=amps_obj, _system_chain=Obj('Chain', {}),
                  _process_tensors=[Obj('PTm', {'idx': 0}), Obj('PTm', {'idx': 1})], _parameters=params,
                  _chain_control=Obj('ChainCtl', {}), _start_time=t0, _start_step=s0, _backend_config={},
                  _dynamics_sites=[], _tebd_propagator=None, _t_mps=None, _results=None, _step=None)
    g = {'dt': dt, 'start_time': t0, 'start_step': s0, 'initial_mps_v': amps}
    return self_, g


def scen_tebd(fresh):
    def scen(ip, repo):
        self_, g = tebd_object(ip, repo, fresh)
        K = Int('end_step')
        s0 = g['start_step']
        # canonical chain at the start step: pre controls of the start step applied to the initial chain
        ip.assume(ChainAt(s0) == site_opt(CtlPre(s0), Chain0(g['initial_mps_v'])), 'definition of ChainAt(start_step)')
        if not fresh:
            k = Int('k_now')
            ip.assume(k >= s0)
            self_.fields['_step'] = k
            self_.fields['_t_mps'] = Obj('TMps', {'chain': ChainAt(k), 'traces': None})
            self_.fields['_tebd_propagator'] = Obj('TebdProp', {'gate_layers': [L0, L1]})
            self_.fields['_results'] = {
                'time': Seq(k - s0 + 1, lambda j: g['start_time'] + g['dt'] * z3.ToReal(j), 'list'),
                'norm': Seq(k - s0 + 1, lambda j: uf('Tebd_get_norm', ChainAt(s0 + j), s0 + j), 'list'),
                'bond_dimensions': Seq(k - s0 + 1, lambda j: uf('Tebd_get_bond_dimensions', ChainAt(s0 + j), s0 + j), 'list'),
                'dynamics': {}, 'pt_bond_dimensions': {}}
            g['k0'] = k
        ip.ghost['tebd'] = g
        return {'args': [self_, K], 'self': self_, 'g': g, 'K': K,
                'inputs': {'end_step': K, 'start_step': s0, 'k_now': g.get('k0', -1)}}
    return scen


def post_tebd(ip, ctx, out):
    if not expect_no_other_exception(ip, out, allowed=('AssertionError',)):
        return
    if not out.returned:
        return ip.prove('path-accounted', z3.BoolVal(True))
    self_, g, K = ctx['self'], ctx['g'], ctx['K']
    s0 = g['start_step']
    k0 = g.get('k0', s0)
    k = self_.fields['_step']
    ip.prove('tebd/compute-post', k == z3.If(K > k0, K, k0))
    ip.prove('tebd/chain-canonical', self_.fields['_t_mps'].fields['chain'] == ChainAt(k))
    times = self_.fields['_results']['time']
    from pyvc.lib import as_seq
    times = as_seq(times)
    j = fresh_int('j')
    ip.prove('tebd/times', z3.And(times.length == k - s0 + 1,
             z3.Implies(z3.And(j >= 0, j <= k - s0), times.fn(j) == g['start_time'] + g['dt'] * z3.ToReal(j))))
    if 'k0' in g:
        touched = [e for e in ip.log if e[0] == 'controls']
        ip.prove('tebd/noop-when-reached', z3.Implies(K <= k0, z3.BoolVal(not touched)))


# ---- restart from the exported chain state (lemma over the contracts above)
def lemma_restart():
    class L:
        name = 'tebd/restart'

        def run(self, timeout_ms, tier):
            import time
            t_ = time.time()
            obs = []
            k, j = z3.Ints('k j')
            chainA = z3.Function('ChainAt_A', IntS, V)
            chainB = z3.Function('ChainAt_B', IntS, V)
            amps0 = z3.Const('mps0', V)
            # A: uninterrupted from start_step 0.  B: built from A's export at step k, start_step = k.
            # export/import round trip of the chain state (assumed exact: get_gamma/get_lambda copy)
            base = [k >= 0, Chain0(ExportF(chainA(k))) == chainA(k),
                    chainB(k) == site_opt(CtlPre(k), Chain0(ExportF(chainA(k)))),      # initialize() of B
                    chainA(k + 1) == tebd_step_expr(k, chainA(k)),
                    chainB(k + 1) == tebd_step_expr(k, chainB(k))]
            for nm, extra in (('tebd/restart[no-pre-control-at-restart-step]', [CtlPre(k) == NONE]),
                              ('tebd/restart[pre-control-at-restart-step]', [CtlPre(k) != NONE])):
                s = z3.Solver()
                s.set('timeout', timeout_ms)
                s.add(base + extra)
                s.add(z3.Not(z3.And(chainB(k) == chainA(k), chainB(k + 1) == chainA(k + 1))))
                r = s.check()
                obs.append({'name': nm, 'backend': 'z3', 'flags': [], 'info': {}, 'pc_sat': 'sat',
                            'result': 'discharged' if r == z3.unsat else ('refuted' if r == z3.sat else 'unknown'),
                            'model': {'pre_control_at_restart_step': nm.endswith('[pre-control-at-restart-step]')},
                            'seconds': round(time.time() - t_, 3)})
            # time stamps of the restarted object
            dt, t0 = z3.Reals('dt t0')
            s = z3.Solver()
            tA = lambda n: t0 + dt * z3.ToReal(n - 0)
            tB = lambda n: tA(k) + dt * z3.ToReal(n - k)
            s.add(z3.Not(tB(j) == tA(j)))
            r = s.check()
            obs.append({'name': 'tebd/restart-times', 'backend': 'z3', 'flags': ['REAL_FLOAT'], 'info': {}, 'pc_sat': 'sat',
                        'result': 'discharged' if r == z3.unsat else 'refuted', 'seconds': 0.0})
            return {'target': self.name, 'function': 'pt_tebd.PtTebd.initialize/compute_step/get_augmented_mps (lemma over their contracts)',
                    'property': PROP, 'paths': 1, 'obligations': obs, 'undecided': [], 'errors': [],
                    'flags': [], 'lib_pure': [], 'lib_used': [], 'seconds': round(time.time() - t_, 3)}

        def replay(self, ob):
            return {'func': 'tebd_restart', 'inputs': {'obligation': ob['name']}}
    return L()


def lemma_history():
    class L:
        name = 'hist/only-max'

        def run(self, timeout_ms, tier):
            import time
            t_ = time.time()
            # contract of compute (tempo/compute-post, tebd/compute-post): k' = max(k, S(T)).
            # Induction over the call list: after targets T_1..T_n from k0 the counter is
            # max(k0, S(T_1), .., S(T_n)) — and the state is canonical(k), a function of k alone.
            k0, m, s = z3.Ints('k0 m s')
            mx = lambda a, b: z3.If(a > b, a, b)
            sol = z3.Solver()
            sol.add(z3.Not(mx(mx(k0, m), s) == mx(k0, mx(m, s))))
            r = sol.check()
            ob = {'name': 'hist/only-max', 'backend': 'z3', 'flags': [], 'info': {}, 'pc_sat': 'sat',
                  'result': 'discharged' if r == z3.unsat else 'refuted', 'seconds': round(time.time() - t_, 3)}
            sol2 = z3.Solver()
            # retry: a failed call leaves canonical(k'') with k <= k'' ; the repeated call gives max(k'', S) = max(k, S) when S >= k''
            k, k2 = z3.Ints('k k2')
            sol2.add(k2 >= k, z3.Not(z3.Implies(s >= k2, mx(k2, s) == mx(k, s))))
            r2 = sol2.check()
            ob2 = {'name': 'hist/retry', 'backend': 'z3', 'flags': [], 'info': {}, 'pc_sat': 'sat',
                   'result': 'discharged' if r2 == z3.unsat else 'refuted', 'seconds': 0.0}
            return {'target': self.name, 'function': '(lemma over the compute contracts)', 'property': PROP,
                    'paths': 1, 'obligations': [ob, ob2], 'undecided': [], 'errors': [], 'flags': [],
                    'lib_pure': [], 'lib_used': [], 'seconds': ob['seconds']}
    return L()


# =====================================================================================
# C. MeanFieldTempoBackend.compute_step (real)
def scen_mfb_step(ip, repo, nsys=1):
    s = Int('s')
    ip.assume(s >= 0)
    field = Cx(Real('a_re'), Real('a_im'))
    rho = Vc('rho_s')

    @model
    def deriv(ip2, a2, k2):
        ip2.log.append(('deriv', a2[0], a2[1], a2[2]))
        if ip2.may_raise('field_eom-1st-raises'):
            ip2.log.append(('user-raise', 'field_eom-1'))
            raise PyRaise(ExcVal('UserError', ('field_eom',)))
        return Cx(uf('D_re', to_int(a2[0]), a2[1], a2[2], sort=RealS), uf('D_im', to_int(a2[0]), a2[1], a2[2], sort=RealS))

    @model
    def cfield(ip2, a2, k2):
        ip2.log.append(('compute_field', a2[0], a2[1], a2[2], a2[3]))
        if ip2.may_raise('field_eom-2nd-raises'):
            ip2.log.append(('user-raise', 'field_eom-2'))
            raise PyRaise(ExcVal('UserError', ('field_eom',)))
        return Cx(uf('F_re', to_int(a2[0]), a2[1], a2[2], a2[3], sort=RealS), uf('F_im', to_int(a2[0]), a2[1], a2[2], a2[3], sort=RealS))

    @model
    def propagators(ip2, a2, k2):
        ip2.log.append(('propagators', a2[0], a2[1], a2[2]))
        if ip2.may_raise('propagators-raises'):
            ip2.log.append(('user-raise', 'propagators'))
            raise PyRaise(ExcVal('UserError', ('hamiltonian',)))
        return uf('MP1', to_int(a2[0]), a2[1], a2[2]), uf('MP2', to_int(a2[0]), a2[1], a2[2])
    btb = Obj('BTB', {'net': Vc('net_s')})
    rhos, props, btbs = [rho], [propagators], [btb]
    for i in range(1, nsys):
        rhos.append(Vc('rho_s_%d' % i))
        btbs.append(Obj('BTB', {'net': Vc('net_s_%d' % i)}))
        props.append(propagators)
    self_ = mkobj(repo, 'backends.tempo_backend.MeanFieldTempoBackend', _step=s, _state_list=rhos, _field=field,
                  _propagators_list=props, _backend_list=btbs, _compute_field=cfield,
                  _compute_field_derivative=deriv)
    return {'args': [self_], 'self': self_, 's': s, 'field': field, 'rho': rho, 'rhos': list(rhos), 'btb': btb, 'btbs': btbs,
            'nets0': [b.fields['net'] for b in btbs], 'inputs': {'step': s, 'systems': nsys}}


def mfb_registry():
    R = Registry()

    @model
    def css(ip, args, kw):
        o, step, p1, p2 = args
        ip.log.append(('system-step', step))
        o.fields['net'] = Adv(o.fields['net'], to_int(step), p1, p2)
        return Read(o.fields['net'])
    R.models['BTB.compute_system_step'] = css
    return R


def post_mfb_step(ip, ctx, out):
    self_, s, field, rho, btb = ctx['self'], ctx['s'], ctx['field'], ctx['rho'], ctx['btb']
    rhos = ctx['rhos']
    unchanged = z3.And([self_.fields['_step'] == s, veq(self_.fields['_field'], field), veq(self_.fields['_state_list'], rhos)] +
                       [b.fields['net'] == n0 for b, n0 in zip(ctx['btbs'], ctx['nets0'])])
    if out.raised('UserError'):
        second = any(e == ('user-raise', 'field_eom-2') for e in ip.log)
        if second:
            ip.prove('mfb/exc-atomic[field-eom-second-evaluation]', unchanged)
        else:
            ip.prove('mfb/exc-atomic[before-network-advance]', unchanged)
        return
    if not expect_no_other_exception(ip, out):
        return
    step, states, fld = out.value
    d = [e for e in ip.log if e[0] == 'deriv'][0]
    p = [e for e in ip.log if e[0] == 'propagators'][0]
    cf = [e for e in ip.log if e[0] == 'compute_field'][0]
    ss = [e for e in ip.log if e[0] == 'system-step'][0]
    dval = Cx(uf('D_re', s, rhos, field, sort=RealS), uf('D_im', s, rhos, field, sort=RealS))
    ip.prove('mfb/uses-current-step', z3.And(to_int(d[1]) == s, veq(d[2], rhos), veq(d[3], field),
                                             to_int(p[1]) == s, veq(p[2], field), veq(p[3], dval),
                                             to_int(ss[1]) == s + 1,
                                             to_int(cf[1]) == s, veq(cf[2], rhos), veq(cf[3], field)))
    ip.prove('mfb/step-post', z3.And(self_.fields['_step'] == s + 1, to_int(step) == s + 1))


# =====================================================================================
def rp(func):
    def f(ob):
        return {'func': func, 'inputs': {'obligation': ob['name'], 'model': ob.get('model')}}
    return f


def targets(tier='quick'):
    T = []
    RB = backend_registry()
    T.append(Target('tempo-backend/compute_step', 'backends.tempo_backend.TempoBackend.compute_step',
                    scen_backend_step, post_backend_step, RB, PROP, replay=rp('tempo_exc_atomic')))
    T.append(Target('tempo-backend/initialize', 'backends.tempo_backend.TempoBackend.initialize',
                    scen_backend_init, post_backend_init, RB, PROP))
    RT = tempo_sm.tempo_registry()
    T.append(Target('tempo/compute[fresh]', 'tempo.Tempo.compute', tempo_sm.tempo_scenario(True), post_tempo_compute, RT, PROP, replay=rp('tempo_split')))
    T.append(Target('tempo/compute[continue]', 'tempo.Tempo.compute', tempo_sm.tempo_scenario(False), post_tempo_compute, RT, PROP, replay=rp('tempo_split')))
    RP = pt_registry()
    for st in ('fresh', 'partial', 'complete'):
        T.append(Target('pt/compute[%s]' % st, 'pt_tempo.PtTempo.compute', scen_pt(st), post_pt_compute, RP, PROP, replay=rp('pt_twice')))
        T.append(Target('pt/get_process_tensor-twice[%s]' % st, 'pt_tempo.PtTempo.get_process_tensor', scen_pt(st), post_pt_get, RP, PROP,
                        invoke=invoke_pt_get_twice, replay=rp('pt_twice')))
    RPB = ptb_models(Registry())

    @model
    def add_singleton(ip, args, kw):
        return uf('add_singleton', *args)
    RPB.models['util.add_singleton'] = add_singleton
    T.append(Target('pt-backend/compute_step', 'backends.pt_tempo_backend.PtTempoBackend.compute_step', scen_ptb_step,
                    post_ptb_step, RPB, PROP, replay=rp('pt_exc_atomic')))
    for nsys in (1, 2, 3):
        T.append(Target('mf-backend/compute_step' + ('' if nsys == 1 else '[systems=%d]' % nsys), 'backends.tempo_backend.MeanFieldTempoBackend.compute_step',
                        (lambda n: lambda ip, repo: scen_mfb_step(ip, repo, n))(nsys), post_mfb_step, mfb_registry(), PROP, replay=rp('mfb_exc_atomic')))
    RG = gibbs_registry()
    T.append(Target('gibbs/compute[fresh]', 'tempo.GibbsTempo.compute', scen_gibbs(True), post_gibbs, RG, PROP, replay=rp('gibbs_twice')))
    T.append(Target('gibbs/compute[again]', 'tempo.GibbsTempo.compute', scen_gibbs(False), post_gibbs, RG, PROP, replay=rp('gibbs_twice')))
    RTB = tebd_registry()
    for fresh in (True, False):
        t = Target('tebd/compute[%s]' % ('fresh' if fresh else 'continue'), 'pt_tebd.PtTebd.compute', scen_tebd(fresh), post_tebd, RTB, PROP, replay=rp('tebd_split'))
        # WHERE inside a step the controls and records sit is C18's contract (tebd/step-structure); the splitting argument of this
        # property (and the restart lemma below) take it as a premise: if it fails, C18 reports it and C14 falls back to its bounded
        # native checks instead of claiming a violation of its own
        t.premise = lambda name: name.startswith(('tebd-loop/init/self._t_mps', 'tebd-loop/preserve/self._t_mps', 'tebd-loop/init/self._results',
                                                  'tebd-loop/preserve/self._results', 'tebd/chain-canonical'))
        t.premise_owner = 'C18 tebd/step-structure'
        T.append(t)
    # the back end's side of the PtTebd contract used above ("compute_traces(step) makes the traces those of the CURRENT chain"):
    # real PtTebdBackend code on free tensors, with an observer query before the chain changes
    from . import c10
    T.append(c10.TraceTarget(3, evolve=True, query_first=True, prop=PROP))
    T.append(lemma_restart())
    T.append(lemma_history())
    return T


META = {'level': 'proof', 'explanation': '', 'trusted_base': [], 'clauses': []}


# ---- PtTebd.get_augmented_mps: the exported chain state is every gamma and every lambda of the CURRENT chain, in order
GamOf = z3.Function('gamma_of_chain', V, z3.IntSort(), V)
LamOf = z3.Function('lambda_of_chain', V, z3.IntSort(), V)


def export_registry():
    R = Registry()

    @model
    def m_get_gamma(ip, args, kw):
        return GamOf(args[0].fields['chain'], to_int(args[1]))

    @model
    def m_get_lambda(ip, args, kw):
        return LamOf(args[0].fields['chain'], to_int(args[1]))

    @model
    def m_n(ip, args, kw):
        return args[0].fields['n']

    @model
    def m_amps(ip, args, kw):
        return Obj('AMps', {'gammas': args[0], 'lambdas': args[1] if len(args) > 1 else kw.get('lambdas')})
    R.models['TMps.get_gamma'] = m_get_gamma
    R.models['TMps.get_lambda'] = m_get_lambda
    R.models['TMps.n'] = m_n
    R.model_properties.add('TMps.n')
    R.models['mps_mpo.AugmentedMPS'] = m_amps

    def t_gam(ip, frame, k):
        c = ip.ghost['export_chain']
        return {'@facts': [k >= 0], 'gammas': Seq(k, lambda j: GamOf(c, j), 'list')}

    def t_lam(ip, frame, k):
        c = ip.ghost['export_chain']
        return {'@facts': [k >= 0], 'lambdas': Seq(k, lambda j: LamOf(c, j), 'list')}
    R.invariants[('pt_tebd.PtTebd.get_augmented_mps', 0)] = LoopInv(t_gam, 'export-gammas')
    R.invariants[('pt_tebd.PtTebd.get_augmented_mps', 1)] = LoopInv(t_lam, 'export-lambdas')
    return R


def scen_export(started):
    def scen(ip, repo):
        n = Int('chain_length')
        ip.assume(n >= 1)
        chain = Vc('chain_now')
        ip.ghost['export_chain'] = chain
        init = Obj('AMps', {'gammas': Vc('g0'), 'lambdas': Vc('l0')})
        self_ = mkobj(repo, 'pt_tebd.PtTebd', _initial_augmented_mps=init, _t_mps=(Obj('TMps', {'chain': chain, 'n': n, 'traces': None}) if started else None))
        return {'args': [self_], 'self': self_, 'n': n, 'chain': chain, 'init': init, 'started': started, 'inputs': {'chain_length': n, 'started': started}}
    return scen


def post_export(ip, ctx, out):
    if not expect_no_other_exception(ip, out):
        return
    r = out.value
    if not ctx['started']:
        return ip.prove('tebd/export/initial-state-before-the-first-step', z3.BoolVal(r is ctx['init']))
    from pyvc.lib import as_seq
    g, l = as_seq(r.fields['gammas']), as_seq(r.fields['lambdas'])
    j = fresh_int('j')
    n, c = ctx['n'], ctx['chain']
    ip.prove('tebd/export/all-gammas-in-order', z3.And(g.length == n, z3.Implies(z3.And(j >= 0, j < n), g.fn(j) == GamOf(c, j))))
    ip.prove('tebd/export/all-lambdas-in-order', z3.And(l.length == n - 1, z3.Implies(z3.And(j >= 0, j < n - 1), l.fn(j) == LamOf(c, j))))


_t_c14 = targets


def targets(tier='quick'):
    T = _t_c14(tier)
    RX = export_registry()
    for started in (True, False):
        T.append(Target('tebd/export[%s]' % ('running' if started else 'not started'), 'pt_tebd.PtTebd.get_augmented_mps', scen_export(started), post_export, RX, PROP,
                        replay=rp('tebd_restart')))
    return T
