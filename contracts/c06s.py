"""C06 — the degeneracy-reduced dk = 0 tensors (scatter loops of both back ends; engine: pyvc + grid arrays).

Without the reduction the dk = 0 tensors are deltas of the influence vector v = Infl(0): non-zero only where the west, system and
north labels coincide.  With the reduction the west and north LABELS are replaced by their degeneracy classes (maps w(.), n(.)),
the system labels stay, and the influence function returns one value per north class (v' = v at the class representatives):

  TEMPO     initialize_mps_mpo:   T[W, i, N, j]   = v'[N]             if i == j, W == w(i), N == n(i)   (0 <= i < dim**2),  else 0
  PT-TEMPO  initialize:           Tmpo[W, i, N]   = (v'/dim)[N]       if W == w(i), N == n(i),                              else 0
                                  Tmps[i, N]      = (v'/dim)[N]/dim   if N == n(i),                                         else 0

for EVERY system label i below dim**2 (whatever the number of classes), as a loop invariant over the real scatter loops (unbounded
in dim); the number of influence tensors is fixed per target (1..3): the scatter happens in the first iteration of the outer loop
whatever their number.  How these tensors are then rotated / placed in the network is C01 tempo/init, pt/step, C05 wire/basis-rotation."""
import ast
import z3
from .common import *
from . import c01
from pyvc import grid
from pyvc.grid import GridArr, ZERO
from pyvc.engine import Custom

PROP = 'C06'
NM = z3.Function('north_map', z3.IntSort(), z3.IntSort())
WM = z3.Function('west_map', z3.IntSort(), z3.IntSort())


def _elem(ip, vec, n):
    from pyvc.lib import getitem
    return getitem(ip, vec, n)


def _div(ip, a, b):
    from pyvc.lib import binop
    return binop(ip, ast.Div(), a, b)


def grid_eq(ip, have, want):
    if not isinstance(have, GridArr):
        return z3.BoolVal(False)
    return have.pv_veq(want)


def _maps(ip):
    d = Int('dim')
    ip.assume(d >= 1)
    nsq = d * d
    return d, nsq, [Seq(nsq, lambda j: NM(j), 'ndarray'), Seq(nsq, lambda j: WM(j), 'ndarray')]


# ---- TEMPO
def tempo_spec(ip, k, infl0):
    return GridArr(4, lambda idx: ite(z3.And(idx[1] >= 0, idx[1] < k, idx[1] == idx[3], idx[0] == WM(idx[1]), idx[2] == NM(idx[1])),
                                      _elem(ip, infl0, NM(idx[1])), ZERO))


def tempo_registry():
    R = c01.init_registry()

    @model
    def m_zeros(ip, args, kw):
        return grid.zeros(args[0])
    R.lib_models['numpy.zeros'] = m_zeros

    @model
    def m_moveaxis(ip, args, kw):
        a = args[0]
        if isinstance(a, GridArr):
            ip.ghost['scattered'] = a
            a = z3.Const('scattered_dk0_tensor', V)
        return uf('lib_numpy_moveaxis', a, *[to_int(x) for x in args[1:]])
    R.lib_models['numpy.moveaxis'] = m_moveaxis

    def scatter_template(ip, frame, k):
        return {'@facts': [k >= 0], 'tmp': Custom(tempo_spec(ip, k, c01.InflF(0)), grid_eq)}
    R.invariants[('backends.tempo_backend.BaseTempoBackend.initialize_mps_mpo', 1)] = LoopInv(scatter_template, 'scatter-loop')
    return R


def scen_tempo(ip, repo):
    d, nsq, maps = _maps(ip)

    @model
    def influence(ip2, a2, k2):
        r = c01.InflF(to_int(a2[0]))
        ip2.add_pc(r != NONE)
        return r
    U = Vc('unitary')
    ip.assume(U != NONE)
    o = mkobj(repo, 'backends.tempo_backend.BaseTempoBackend', _initial_state=Vc('rho0'), _unitary_transform=U, _sum_north=Vc('sn'),
              _dkmax=None, _influence=influence, _degeneracy_maps=maps, _dim=d)
    ip.ghost['init'] = {'T0': Vc('unused')}
    return {'args': [o], 'o': o, 'nsq': nsq, 'inputs': {'dim': d}}


def post_tempo(ip, ctx, out):
    if not expect_no_other_exception(ip, out):
        return
    got = ip.ghost.get('scattered')
    ip.prove('deg/scatter[TEMPO dk=0 tensor]', grid_eq(ip, got, tempo_spec(ip, ctx['nsq'], c01.InflF(0))) if got is not None else z3.BoolVal(False),
             {'captured': repr(got)})


# ---- PT-TEMPO
def pt_specs(ip, k, infl0, d):
    v = _div(ip, infl0, d)
    mpo = GridArr(3, lambda idx: ite(z3.And(idx[1] >= 0, idx[1] < k, idx[0] == WM(idx[1]), idx[2] == NM(idx[1])), _elem(ip, v, NM(idx[1])), ZERO))
    mps = GridArr(2, lambda idx: ite(z3.And(idx[0] >= 0, idx[0] < k, idx[1] == NM(idx[0])), _div(ip, _elem(ip, v, NM(idx[0])), d), ZERO))
    return mpo, mps


def pt_registry():
    R = c01.pt_registry()

    @model
    def m_zeros(ip, args, kw):
        return grid.zeros(args[0])
    R.lib_models['numpy.zeros'] = m_zeros
    inner = R.models.get('backends.node_array.NodeArray')

    @model
    def m_nodearray(ip, args, kw):
        tensors = list(args[0])
        rec = ip.ghost.setdefault('first_tensors', [])
        if tensors and isinstance(tensors[0], GridArr):
            rec.append(tensors[0])
            tensors[0] = z3.Const('scattered_first_tensor_%d' % len(rec), V)
        return inner(ip, [tensors] + list(args[1:]), kw)
    R.models['backends.node_array.NodeArray'] = m_nodearray

    def scatter_template(ip, frame, k):
        mpo, mps = pt_specs(ip, k, c01.InflF(0), ip.ghost['dim'])
        return {'@facts': [k >= 0], 'tmp_mpo': Custom(mpo, grid_eq), 'tmp_mps': Custom(mps, grid_eq)}
    R.invariants[('backends.pt_tempo_backend.PtTempoBackend.initialize', 1)] = LoopInv(scatter_template, 'scatter-loop')
    return R


def scen_pt(num_infl):
    def scen(ip, repo):
        d, nsq, maps = _maps(ip)
        ip.ghost['dim'] = d

        @model
        def influence(ip2, a2, k2):
            r = c01.InflF(to_int(a2[0]))
            ip2.add_pc(r != NONE)
            return r
        o = mkobj(repo, 'backends.pt_tempo_backend.PtTempoBackend', _dimension=d, _influence=influence, _sum_north=Vc('sum_north'),
                  _num_infl=num_infl, _degeneracy_maps=maps, _epsrel=Real('epsrel'), _backend=None, _step=None, _mps=None, _mpo=None)
        return {'args': [o], 'o': o, 'nsq': nsq, 'd': d, 'inputs': {'dim': d, 'num_infl': num_infl}}
    return scen


def post_pt(ip, ctx, out):
    if not expect_no_other_exception(ip, out):
        return
    rec = ip.ghost.get('first_tensors') or []
    mpo, mps = pt_specs(ip, ctx['nsq'], c01.InflF(0), ctx['d'])
    # (the two arrays are told apart by their rank, not by the order in which the code builds them)
    got_mpo = [g for g in rec if isinstance(g, GridArr) and g.rank == 3]
    got_mps = [g for g in rec if isinstance(g, GridArr) and g.rank == 2]
    ok = len(rec) == 2 and len(got_mpo) == 1 and len(got_mps) == 1
    ip.prove('deg/scatter[PT-TEMPO first MPO tensor]', grid_eq(ip, got_mpo[0], mpo) if ok else z3.BoolVal(False), {'captured': repr(rec)})
    ip.prove('deg/scatter[PT-TEMPO first MPS tensor]', grid_eq(ip, got_mps[0], mps) if ok else z3.BoolVal(False), {'captured': repr(rec)})


def targets(prop=PROP, replay=None):
    T = [Target('deg/scatter[TempoBackend]', 'backends.tempo_backend.BaseTempoBackend.initialize_mps_mpo', scen_tempo, post_tempo, tempo_registry(), prop,
                replay=replay)]
    RP = pt_registry()
    for ni in (1, 2, 3):
        T.append(Target('deg/scatter[PtTempoBackend,tensors=%d]' % ni, 'backends.pt_tempo_backend.PtTempoBackend.initialize', scen_pt(ni), post_pt, RP, prop,
                        replay=replay))
    return T
