"""C06 (partial) — degeneracy reduction never changes results.

Decidable: the degeneracy classes are congruence classes of the influence formula; the
representative picked for a class is a member of it; north classes use (O-, O+), west classes
O- only; the reduced influence matrix factorises the full one.  The global equality of the
reduced and the full network contraction is assumed to follow (composition not mechanised).
"""
import ast
import time
import z3
from .common import *
from . import c01, c05
from pyvc.modules import Repo, describe
from pyvc.interp import Interp, Frame
from pyvc import values as Vv

PROP = 'C06'
IntS = z3.IntSort()


def only(names):
    """wrap a post-condition: keep only obligations whose name starts with one of `names`"""
    def deco(post):
        def f(ip, ctx, out):
            before = len(ip.obligations)
            post(ip, ctx, out)
            kept = [ob for ob in ip.obligations[before:] if ob['name'].startswith(tuple(names)) or ob['name'].startswith('unexpected')]
            ip.obligations[before:] = kept or [{'name': 'path-accounted', 'goal': z3.BoolVal(True), 'pc': [], 'info': {}, 'flags': set()}]
        return f
    return deco


# ---- Bath: which eigenvalue combinations define the north / west classes
def post_bath_maps(ip, ctx, out):
    if not out.returned:
        return ip.prove('path-accounted', z3.BoolVal(True))
    o = ctx['self']
    comm, acomm = o.fields['_coupling_comm'], o.fields['_coupling_acomm']
    ip.prove('deg/north-uses-both', o.fields['_north_degeneracy_map'] == uf('row_degeneracy', comm, acomm))
    ip.prove('deg/west-uses-comm', o.fields['_west_degeneracy_map'] == uf('row_degeneracy', comm))
    D = o.fields['_coupling_operator']
    ip.prove('deg/maps-from-diagonalised-operator', z3.And(comm == uf('meth_diagonal', uf('commutator', D)),
                                                         acomm == uf('meth_diagonal', uf('acommutator', D))))


# ---- the representative of every class is a member of the class (comprehension element as a fragment)
class RepresentativeTarget:
    def __init__(self, qualname, label):
        self.qualname, self.name = qualname, 'deg/representative[%s]' % label

    def replay(self, ob):
        return {'func': 'unique_vs_full', 'inputs': {'obligation': ob['name']}}

    def run(self, timeout_ms, tier):
        t0 = time.time()
        repo = Repo()
        res = {'target': self.name, 'function': self.qualname, 'property': PROP, 'paths': 0, 'obligations': [], 'undecided': [], 'errors': [],
               'flags': [], 'lib_pure': [], 'lib_used': ['numpy.where (indices of the True entries, ascending)', 'numpy.unique(return_inverse): classes onto 0..K-1']}
        fref = repo.resolve(self.qualname)
        if fref is None:
            res['undecided'].append('contract target missing: %s' % self.qualname)
            return res
        res['function_info'] = describe(fref)
        comps = [n for n in ast.walk(fref.node) if isinstance(n, ast.ListComp) and 'where' in ast.dump(n.elt)]
        if len(comps) != 2:
            res['undecided'].append('expected two np.where comprehensions (north, west), found %d' % len(comps))
            return res
        from pyvc.engine import discharge, model as mdl
        R = Registry()

        @mdl
        def m_where(ip, args, kw):
            mask = args[0]
            n = mask.length
            ar = Seq(n, lambda i: i, 'ndarray')
            from pyvc.lib import mask_filter
            return (mask_filter(ip, ar, mask),)
        R.lib_models['numpy.where'] = m_where
        for which, comp in zip(('north', 'west'), sorted(comps, key=lambda c: c.lineno)):
            work = [[]]
            while work:
                prefix = work.pop()
                Vv.reset_fresh()
                ip = Interp(repo, R, prefix, solver_timeout_ms=timeout_ms)
                n, kmax, i = z3.Int('n'), z3.Int('max_class'), z3.Int('i')
                M = z3.Function('class_of', IntS, IntS)
                W = z3.Function('member_of_class', IntS, IntS)
                mp = Seq(n, lambda j: M(j), 'ndarray')
                ip.add_pc(z3.And(n >= 1, i >= 0, i <= kmax))
                # contract of np.unique(..., return_inverse=True): the map is onto 0..K-1 (witness W)
                ip.add_pc(z3.And(W(i) >= 0, W(i) < n, M(W(i)) == i))
                bath = Obj('BathM', {'north_degeneracy_map': mp, 'west_degeneracy_map': mp})
                frame = Frame(fref.module, func=fref.node, cls=fref.cls, qualname=fref.qualname)
                selfo = Obj('SelfM', {'_bath': bath, '_unique': True})
                frame.vars.update({'self': selfo, 'bath': bath})
                gen = comp.generators[0]
                frame.vars[gen.target.id] = i
                try:
                    # instantiate the filter facts at the witness when the mask is built: evaluate the element
                    val = None
                    try:
                        # evaluate mask first to register the witness instance
                        val = ip.eval(comp.elt, frame)
                        for rec in ip.ghost.get('filters', {}).values():
                            pass
                        ip.prove('deg/representative[%s]' % which, z3.And(to_int(val) >= 0, to_int(val) < n, M(to_int(val)) == i))
                    except PyRaise as pr:
                        # an empty class would raise IndexError: impossible when the map is onto
                        for rec in ip.ghost.get('filters', {}).values():
                            ip.add_pc(rec['facts_j'](W(i)))
                        if ip.feasible():
                            ip.prove('deg/representative[%s]' % which, z3.BoolVal(False), {'exc': pr.exc.typ})
                        # else: the empty-class path contradicts the onto contract of np.unique: dead path
                    res['paths'] += 1
                except Unsupported as u:
                    res['undecided'].append('unsupported construct: %s' % u)
                except Vv.Infeasible:
                    pass
                work.extend(ip.new_forks)
                for ob in ip.obligations:
                    res['obligations'].append(discharge(ob, timeout_ms, None, {}))
        res['seconds'] = round(time.time() - t0, 3)
        return res


def rp(ob):
    return {'func': 'unique_vs_full', 'inputs': {'obligation': ob['name']}}


def targets(tier='quick'):
    T = []
    R = c01.np_registry()
    q = 'tempo.influence_matrix'
    deg_post = only(['deg/'])(c01.post_infl)
    for case in ('zero', 'pos', 'neg'):
        for deg in (False, True):
            T.append(Target('deg/influence[%s,reduced=%s]' % (case, deg), q, c01.scen_infl(case, True, deg), deg_post, R, PROP, replay=rp))
    T.append(Target('deg/bath-maps', 'bath.Bath.__init__', c05.scen_bath_h, post_bath_maps, c05.c05_registry(), PROP, replay=rp))
    for qn, label in (('tempo.Tempo._influence', 'Tempo'), ('pt_tempo.PtTempo._influence', 'PtTempo'),
                      ('tempo.MeanFieldTempo._get_influence', 'MeanFieldTempo')):
        T.append(RepresentativeTarget(qn, label))
    return T


META = {'level': 'proof', 'explanation': '', 'trusted_base': [], 'clauses': []}
