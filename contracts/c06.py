"""C06 (partial) — degeneracy reduction never changes results.

Decidable: the degeneracy classes are congruence classes of the influence formula; the
representative picked for a class is a member of it; north classes use (O-, O+), west classes
O- only; the reduced influence matrix factorises the full one.  The global equality of the
reduced and the full network contraction is assumed to follow (composition not mechanised).
"""
import ast
import time
import z3
from .common import *
from . import c01, c05
from pyvc.modules import Repo, describe
from pyvc.interp import Interp, Frame
from pyvc import values as Vv
from pyvc.values import is_z3, concrete_int

PROP = 'C06'
IntS = z3.IntSort()


def only(names):
    """wrap a post-condition: keep only obligations whose name starts with one of `names`"""
    def deco(post):
        def f(ip, ctx, out):
            before = len(ip.obligations)
            post(ip, ctx, out)
            kept = [ob for ob in ip.obligations[before:] if ob['name'].startswith(tuple(names)) or ob['name'].startswith('unexpected')]
            ip.obligations[before:] = kept or [{'name': 'path-accounted', 'goal': z3.BoolVal(True), 'pc': [], 'info': {}, 'flags': set()}]
        return f
    return deco


# ---- Bath: which eigenvalue combinations define the north / west classes
def post_bath_maps(ip, ctx, out):
    if not out.returned:
        return ip.prove('path-accounted', z3.BoolVal(True))
    o = ctx['self']
    comm, acomm = o.fields['_coupling_comm'], o.fields['_coupling_acomm']
    ip.prove('deg/north-uses-both', o.fields['_north_degeneracy_map'] == uf('row_degeneracy', comm, acomm))
    ip.prove('deg/west-uses-comm', o.fields['_west_degeneracy_map'] == uf('row_degeneracy', comm))
    D = o.fields['_coupling_operator']
    ip.prove('deg/maps-from-diagonalised-operator', z3.And(comm == uf('meth_diagonal', uf('commutator', D)),
                                                         acomm == uf('meth_diagonal', uf('acommutator', D))))


# ---- the representative of every class is a member of the class (comprehension element as a fragment)
class RepresentativeTarget:
    def __init__(self, qualname, label):
        self.qualname, self.name = qualname, 'deg/representative[%s]' % label

    def replay(self, ob):
        return {'func': 'unique_vs_full', 'inputs': {'obligation': ob['name']}}

    def run(self, timeout_ms, tier):
        t0 = time.time()
        repo = Repo()
        res = {'target': self.name, 'function': self.qualname, 'property': PROP, 'paths': 0, 'obligations': [], 'undecided': [], 'errors': [],
               'flags': [], 'lib_pure': [], 'lib_used': ['numpy.where (indices of the True entries, ascending)', 'numpy.unique(return_inverse): classes onto 0..K-1']}
        fref = repo.resolve(self.qualname)
        if fref is None:
            # the helper may have been renamed / merged: look for the two comprehensions in every method of the class
            cls = repo.resolve(self.qualname.rsplit('.', 1)[0])
            cands = []
            if cls is not None and hasattr(cls, 'own_members'):
                for nm, f in cls.own_members().items():
                    if hasattr(f, 'node') and len([n for n in ast.walk(f.node) if isinstance(n, ast.ListComp) and 'where' in ast.dump(n.elt)]) == 2:
                        cands.append(f)
            if len(cands) != 1:
                res['undecided'].append('contract target missing: %s' % self.qualname)
                return res
            fref = cands[0]
        res['function_info'] = describe(fref)
        comps = [n for n in ast.walk(fref.node) if isinstance(n, ast.ListComp) and 'where' in ast.dump(n.elt)]
        if len(comps) != 2:
            res['undecided'].append('expected two np.where comprehensions (north, west), found %d' % len(comps))
            return res
        from pyvc.engine import discharge, model as mdl
        R = Registry()

        @mdl
        def m_where(ip, args, kw):
            mask = args[0]
            n = mask.length
            ar = Seq(n, lambda i: i, 'ndarray')
            from pyvc.lib import mask_filter
            return (mask_filter(ip, ar, mask),)
        R.lib_models['numpy.where'] = m_where
        for which, comp in zip(('north', 'west'), sorted(comps, key=lambda c: c.lineno)):
            work = [[]]
            while work:
                prefix = work.pop()
                Vv.reset_fresh()
                ip = Interp(repo, R, prefix, solver_timeout_ms=timeout_ms)
                n, kmax, i = z3.Int('n'), z3.Int('max_class'), z3.Int('i')
                M = z3.Function('class_of', IntS, IntS)
                W = z3.Function('member_of_class', IntS, IntS)
                mp = Seq(n, lambda j: M(j), 'ndarray')
                ip.add_pc(z3.And(n >= 1, i >= 0, i <= kmax))
                # contract of np.unique(..., return_inverse=True): the map is onto 0..K-1 (witness W)
                ip.add_pc(z3.And(W(i) >= 0, W(i) < n, M(W(i)) == i))
                bath = Obj('BathM', {'north_degeneracy_map': mp, 'west_degeneracy_map': mp})
                frame = Frame(fref.module, func=fref.node, cls=fref.cls, qualname=fref.qualname)
                selfo = Obj('SelfM', {'_bath': bath, '_unique': True})
                frame.vars.update({'self': selfo, 'bath': bath})
                gen = comp.generators[0]
                frame.vars[gen.target.id] = i
                try:
                    # instantiate the filter facts at the witness when the mask is built: evaluate the element
                    val = None
                    try:
                        # evaluate mask first to register the witness instance
                        val = ip.eval(comp.elt, frame)
                        for rec in ip.ghost.get('filters', {}).values():
                            pass
                        ip.prove('deg/representative[%s]' % which, z3.And(to_int(val) >= 0, to_int(val) < n, M(to_int(val)) == i))
                    except PyRaise as pr:
                        # an empty class would raise IndexError: impossible when the map is onto
                        for rec in ip.ghost.get('filters', {}).values():
                            ip.add_pc(rec['facts_j'](W(i)))
                        if ip.feasible():
                            ip.prove('deg/representative[%s]' % which, z3.BoolVal(False), {'exc': pr.exc.typ})
                        # else: the empty-class path contradicts the onto contract of np.unique: dead path
                    res['paths'] += 1
                except Unsupported as u:
                    res['undecided'].append('unsupported construct: %s' % u)
                except Vv.Infeasible:
                    pass
                work.extend(ip.new_forks)
                for ob in ip.obligations:
                    res['obligations'].append(discharge(ob, timeout_ms, None, {}))
        res['seconds'] = round(time.time() - t0, 3)
        return res


def rp(ob):
    return {'func': 'unique_vs_full', 'inputs': {'obligation': ob['name']}}


# ---- several baths: the influence function handed to back end i uses bath i's data AND bath i's representatives
NORTH = [[0, 1, 1, 2, 3, 3], [0, 0, 1, 2, 2, 3]]      # two baths with the same number of classes, arranged differently
WEST = [[0, 1, 2, 2, 1, 0], [0, 0, 1, 1, 2, 2]]


def first_positions(m):
    return [m.index(c) for c in range(max(m) + 1)]


def mf_registry():
    R = Registry()

    def conc(x):
        if isinstance(x, bool):
            return x
        if is_z3(x):
            v = z3.simplify(x)
            if z3.is_true(v):
                return True
            if z3.is_false(v):
                return False
            if z3.is_int_value(v):
                return v.as_long()
        if isinstance(x, int):
            return x
        raise Unsupported('non-concrete value in the multi-bath scenario: %r' % (x,))

    def items(v):
        if isinstance(v, Seq):
            n = concrete_int(v.length)
            return [conc(v.fn(z3.IntVal(k))) for k in range(n)]
        return [conc(x) for x in v]

    @model
    def m_where(ip, args, kw):
        return (Seq.from_list([i for i, b in enumerate(items(args[0])) if b], 'ndarray'),)

    @model
    def m_max(ip, args, kw):
        return max(items(args[0]))

    @model
    def m_array(ip, args, kw):
        v = args[0]
        return Seq.from_list(list(v), 'ndarray') if isinstance(v, list) else v

    @model
    def m_ones(ip, args, kw):
        return uf('ones', to_int(args[0]) if not isinstance(args[0], int) else z3.IntVal(args[0]))

    @model
    def m_backend(ip, args, kw):
        ip.ghost['backend_args'] = (args, kw)
        return Obj('MFB', {})

    @model
    def m_infl(ip, args, kw):
        ip.ghost.setdefault('infl_calls', []).append((args, kw))
        return Vc('influence_matrix_result_%d' % len(ip.ghost['infl_calls']))

    @model
    def m_props(ip, args, kw):
        return uf('propagators_of', args[0].fields['id'])
    R.lib_models['numpy.where'] = m_where
    R.lib_models['numpy.max'] = m_max
    R.lib_models['numpy.array'] = m_array
    R.lib_models['numpy.ones'] = m_ones
    R.models['backends.tempo_backend.MeanFieldTempoBackend'] = m_backend
    R.models['tempo.influence_matrix'] = m_infl
    R.models['SysM.get_propagators'] = m_props
    return R


def scen_mf(unique):
    def scen(ip, repo):
        baths = [Obj('BathM', {'north_degeneracy_map': Seq.from_list(NORTH[i], 'ndarray'), 'west_degeneracy_map': Seq.from_list(WEST[i], 'ndarray'),
                               'correlations': Vc('correlations_%d' % i), 'coupling_acomm': Vc('acomm_%d' % i), 'coupling_comm': Vc('comm_%d' % i),
                               'unitary_transform': Vc('unitary_%d' % i)}) for i in range(2)]
        systems = [Obj('SysM', {'id': z3.IntVal(i)}) for i in range(2)]
        params = Obj('ParamsM', {'dt': Real('dt'), 'subdiv_limit': Int('subdiv'), 'liouvillian_epsrel': Real('leps'), 'dkmax': Int('dkmax'),
                                 'epsrel': Real('epsrel')})
        self_ = mkobj(repo, 'tempo.MeanFieldTempo', _unique=unique, _parameters=params, _initial_field=Cx(Real('a_re'), Real('a_im')),
                      _start_time=Real('start_time'), _backend_config={}, _backend_instance=None,
                      _parsed_parameters_dict={'initial_state': [Vc('rho_0'), Vc('rho_1')], 'hs_dim': [Int('d0'), Int('d1')], 'bath': baths,
                                               'system': systems})
        return {'args': [self_], 'kwargs': {}, 'self': self_, 'baths': baths, 'unique': unique, 'inputs': {'unique': unique}}
    return scen


def invoke_mf(ip, repo, fref, ctx):
    ip.call(fref, [ctx['self']], {})
    args, kw = ip.ghost['backend_args']
    infl = args[2]
    out = []
    for i, f in enumerate(infl):
        n0 = len(ip.ghost.get('infl_calls', []))
        ip.call(f, [Int('dk')], {})
        out.append(ip.ghost['infl_calls'][n0:])
    return out


def post_mf(ip, ctx, out):
    if not expect_no_other_exception(ip, out):
        return
    for i, calls in enumerate(out.value):
        b = ctx['baths'][i]
        ok = len(calls) == 1
        info = {}
        if ok:
            a, kw = calls[0]
            ok = kw.get('correlations') is b.fields['correlations'] and kw.get('coupling_acomm') is b.fields['coupling_acomm'] and \
                kw.get('coupling_comm') is b.fields['coupling_comm']
            dp = kw.get('deg_positions')
            if ctx['unique']:
                def num(x):
                    return x if isinstance(x, int) else z3.simplify(x).as_long()

                def lst(v):
                    if isinstance(v, Seq):
                        return [num(v.fn(z3.IntVal(k))) for k in range(concrete_int(v.length))]
                    return [num(x) for x in v]
                got = [lst(dp[0]), lst(dp[1])] if dp is not None else None
                want = [first_positions(NORTH[i]), first_positions(WEST[i])]
                info = {'bath': i, 'deg_positions handed to influence_matrix': got, 'representatives of this bath\'s classes': want}
                ip.prove('deg/per-bath-representatives[bath %d]' % i, z3.BoolVal(got == want), info)
            else:
                ip.prove('deg/per-bath-representatives[bath %d]' % i, z3.BoolVal(dp is None), {'bath': i})
        ip.prove('deg/per-bath-influence-data[bath %d]' % i, z3.BoolVal(bool(ok)), {'bath': i})


def targets(tier='quick'):
    T = []
    R = c01.np_registry()
    q = 'tempo.influence_matrix'
    deg_post = only(['deg/'])(c01.post_infl)
    for case in ('zero', 'pos', 'neg'):
        for deg in (False, True):
            T.append(Target('deg/influence[%s,reduced=%s]' % (case, deg), q, c01.scen_infl(case, True, deg), deg_post, R, PROP, replay=rp))
    T.append(Target('deg/bath-maps', 'bath.Bath.__init__', c05.scen_bath_h, post_bath_maps, c05.c05_registry(), PROP, replay=rp))
    for qn, label in (('tempo.Tempo._influence', 'Tempo'), ('pt_tempo.PtTempo._influence', 'PtTempo'),
                      ('tempo.MeanFieldTempo._get_influence', 'MeanFieldTempo')):
        T.append(RepresentativeTarget(qn, label))
    # with and without the reduction the dk=0 tensor is rotated back from the eigenbasis of the coupling operator in the same
    # way (contracts shared with C05): the reduction must not change what happens to the system legs
    T += [t for t in c05.rotation_targets(PROP, rp) if 'degeneracy_maps' in t.name]
    # what the scatter loops of both back ends build (the reduced dk = 0 tensors), for every system label
    from . import c06s
    T += c06s.targets(PROP, rp)
    # ... and the compression of the (smaller, differently normalised) reduced network uses the caller's RELATIVE tolerance
    from . import nasvd
    T += nasvd.targets(PROP, 'svd_sweep_parameters')
    for u in (True, False):
        T.append(Target('deg/per-bath-influence[MeanFieldTempo,unique=%s]' % u, 'tempo.MeanFieldTempo._prepare_backend', scen_mf(u), post_mf,
                        mf_registry(), PROP, invoke=invoke_mf, replay=lambda ob: {'func': 'mean_field_two_baths', 'inputs': {'obligation': ob['name']}}))
    # util.create_delta on its real body: the contract the targets above assume at its call sites
    from . import delta
    T += delta.targets(PROP)
    return T


META = {'level': 'proof', 'explanation': '', 'trusted_base': [], 'clauses': []}
