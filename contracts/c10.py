"""C10 — PT-TEBD in every execution mode (frame / ordering / name-resolution contracts).

Decidable here: the parallel modes are usable as far as name resolution goes, every
completion order of the gates of a layer gives the same result (frame disjointness), Trotter
layer parity and order sequences, process-tensor index and time stamps.
Numerical exactness vs dense propagation, partial-trace consistency and the norm are not.
"""
import ast
import time
import z3
from .common import *
from pyvc.modules import Repo, describe
from pyvc.lib import as_seq

PROP = 'C10'
IntS, BoolS = z3.IntSort(), z3.BoolSort()

# ---------------------------------------------------------------------------------
# tebd/parallel-names-resolve
# ASSUMED library facts (conformance-checked natively in the replay): `import pkg` does not
# bind these submodules as attributes of the package
NOT_AUTO_IMPORTED = {'concurrent': {'futures'}, 'xml': {'etree', 'dom'}, 'importlib': {'resources', 'metadata'}}


class NamesTarget:
    name = 'tebd/parallel-names-resolve'

    def run(self, timeout_ms, tier):
        t0 = time.time()
        repo = Repo()
        m = repo.module('backends.pt_tebd_backend')
        res = {'target': self.name, 'function': 'backends.pt_tebd_backend (module level imports)', 'property': PROP, 'paths': 1,
               'obligations': [], 'undecided': [], 'errors': [], 'flags': [], 'lib_pure': [],
               'lib_used': ['import system: `import pkg` binds only what pkg/__init__ imports (table NOT_AUTO_IMPORTED)']}
        if m is None:
            res['undecided'].append('contract target missing: backends/pt_tebd_backend.py')
            return res
        bound = set()            # dotted names bound by import statements
        plain = set()
        for st in ast.walk(m.tree):
            if isinstance(st, ast.Import):
                for a in st.names:
                    if a.asname is None:
                        parts = a.name.split('.')
                        plain.add(parts[0])
                        for k in range(1, len(parts) + 1):
                            bound.add('.'.join(parts[:k]))
                    else:
                        bound.add(a.asname)
            elif isinstance(st, ast.ImportFrom) and st.module:
                for a in st.names:
                    bound.add(st.module + '.' + a.name)
        bad = []
        uses = 0
        for n in ast.walk(m.tree):
            if isinstance(n, ast.Attribute) and isinstance(n.value, ast.Name) and n.value.id in plain:
                pkg, sub = n.value.id, n.attr
                if sub in NOT_AUTO_IMPORTED.get(pkg, ()):
                    uses += 1
                    if (pkg + '.' + sub) not in bound:
                        bad.append({'line': n.lineno, 'name': pkg + '.' + sub})
        res['obligations'].append({'name': 'tebd/parallel-names-resolve', 'backend': 'static (import table)', 'flags': [],
                                   'info': {'unbound': bad, 'uses': uses}, 'model': {'unbound': bad}, 'pc_sat': 'sat',
                                   'result': 'discharged' if not bad else 'refuted', 'seconds': round(time.time() - t0, 3)})
        return res

    def replay(self, ob):
        return {'func': 'parallel_modes', 'inputs': {'obligation': ob['name']}}


# ---------------------------------------------------------------------------------
# frames of a nearest-neighbour gate
GAM = z3.Function('gamma0', IntS, V)
LAM = z3.Function('lambda0', IntS, V)
GateOut = z3.Function('apply_nn_gate_result', IntS, V, V, V, V, V, V, V, IntS, V)   # (which component, inputs...)


def tebd_registry():
    R = Registry()

    @model
    def m_apply(ip, args, kw):
        """module level _apply_nn_gate: a pure function of its arguments (uninterpreted)"""
        site_l, lam_l, gam_l, lam_m, gam_r, lam_r, gate_l, gate_r, eps = args
        ip.log.append(('gate-applied', site_l))
        comp = lambda c: GateOut(c, lam_l, gam_l, lam_m, gam_r, lam_r, gate_l, gate_r, to_int(site_l))
        return site_l, comp(0), comp(1), comp(2)

    @model
    def m_apply1(ip, args, kw):
        return m_apply(ip, list(args[0]), kw)
    R.models['backends.pt_tebd_backend._apply_nn_gate'] = m_apply
    R.models['backends.pt_tebd_backend.apply_nn_gate'] = m_apply1

    @model
    def m_node(ip, args, kw):
        return uf('tn_Node', args[0])

    @model
    def noop(ip, args, kw):
        return None
    R.lib_models['tensornetwork.Node'] = m_node
    R.lib_models['tensornetwork.remove_node'] = noop

    def opaque_attr(ip, o, attr):
        if attr == 'copy':
            return (Builtin('Node.copy', lambda ip_, a, k: o),)       # a copy has the same value
        return None
    R.opaque_attr = opaque_attr

    @model
    def executor_ctor(ip, args, kw):
        """contract of concurrent.futures.ThreadPoolExecutor / ProcessPoolExecutor: max_workers is None or a positive integer
        (ValueError otherwise)"""
        mw = kw.get('max_workers', args[0] if args else None)
        if mw is not None:
            ok = (mw > 0) if isinstance(mw, int) and not isinstance(mw, bool) else None
            if ok is None:
                ok = ip.decide(to_int(mw) > 0, 'max_workers-positive')
            if not ok:
                raise PyRaise(ExcVal('ValueError', ('max_workers must be greater than 0',)))
        return Obj('Executor', {})

    @model
    def ex_enter(ip, args, kw):
        return args[0]

    @model
    def ex_exit(ip, args, kw):
        return None

    @model
    def ex_map(ip, args, kw):
        """ASSUMED contract of Executor.map: results in submission order; the calls may run in
        any order and concurrently (here: f must be a pure function of its argument)"""
        o, f, xs = args
        return [ip.call(f, [x], {}) for x in xs]
    @model
    def ex_submit(ip, args, kw):
        """ASSUMED contract of Executor.submit: a future whose result is f(*args) (f pure here); futures complete in ANY order"""
        o, f = args[0], args[1]
        return Obj('Future', {'value': ip.call(f, list(args[2:]), dict(kw))})

    @model
    def fut_result(ip, args, kw):
        return args[0].fields['value']

    @model
    def as_completed(ip, args, kw):
        """ASSUMED contract of concurrent.futures.as_completed: the given futures, each once, in an arbitrary order
        (every permutation is explored)"""
        rest = list(args[0])
        out = []
        while len(rest) > 1:
            k = 0
            while k < len(rest) - 1 and not ip.choose('completes-next'):
                k += 1
            out.append(rest.pop(k))
        return out + rest

    @model
    def fut_wait(ip, args, kw):
        return (list(args[0]), [])
    R.models['Executor.submit'] = ex_submit
    R.models['Future.result'] = fut_result
    R.lib_models['concurrent.futures.as_completed'] = as_completed
    R.lib_models['concurrent.futures.wait'] = fut_wait
    for nm in ('ThreadPoolExecutor', 'ProcessPoolExecutor'):
        R.lib_models['concurrent.futures.' + nm] = executor_ctor
    R.models['Executor.__enter__'] = ex_enter
    R.models['Executor.__exit__'] = ex_exit
    R.models['Executor.map'] = ex_map
    R.model_bases['NnG'] = ['NnGate', 'BaseGate']
    return R


def backend_obj(repo, n, parallel):
    edges = {nm: Seq(n, (lambda f: lambda i: f(i))(z3.Function('edge0_' + nm, IntS, V)), 'list')
             for nm in ('_phys_es', '_pt_es', '_lam_gam_es', '_gam_lam_es')}
    return mkobj(repo, 'backends.pt_tebd_backend.PtTebdBackend', _n=n, _gammas=Seq(n, lambda i: GAM(i), 'list'),
                 _lambdas=Seq(n + 1, lambda i: LAM(i), 'list'), _parallel=parallel, _epsrel=Real('epsrel'), **edges)


def gate(k, site):
    return Obj('NnG', {'sites': [site, site + 1], 'tensors': (Vc('gate_l_%d' % k), Vc('gate_r_%d' % k))})


def scen_reads(ip, repo):
    n, l = Int('n_sites'), Int('site_l')
    ip.assume(z3.And(n >= 2, l >= 0, l + 1 < n))
    o = backend_obj(repo, n, None)
    return {'args': [o, gate(0, l)], 'l': l, 'inputs': {'n': n, 'site_l': l}}


def post_reads(ip, ctx, out):
    if not expect_no_other_exception(ip, out):
        return
    l = ctx['l']
    site, lam_l, gam_l, lam_m, gam_r, lam_r = out.value[:6]
    ip.prove('tebd/reads', z3.And(to_int(site) == l, lam_l == LAM(l), gam_l == GAM(l), lam_m == LAM(l + 1),
                                  gam_r == GAM(l + 1), lam_r == LAM(l + 2)))


def scen_writes(ip, repo):
    n, l = Int('n_sites'), Int('site_l')
    ip.assume(z3.And(n >= 2, l >= 0, l + 1 < n))
    o = backend_obj(repo, n, None)
    g1, lm, g2 = Vc('new_gam_l'), Vc('new_lam_m'), Vc('new_gam_r')
    return {'args': [o, l, g1, lm, g2], 'o': o, 'l': l, 'n': n, 'new': (g1, lm, g2), 'inputs': {'n': n, 'site_l': l}}


def post_writes(ip, ctx, out):
    if not expect_no_other_exception(ip, out):
        return
    o, l, n = ctx['o'], ctx['l'], ctx['n']
    g1, lm, g2 = ctx['new']
    j = fresh_int('j')
    G, L = o.fields['_gammas'], o.fields['_lambdas']
    ip.prove('tebd/writes', z3.And(G.fn(l) == g1, G.fn(l + 1) == g2, L.fn(l + 1) == lm))
    ip.prove('tebd/writes-frame', z3.And(
        G.length == n, L.length == n + 1,
        z3.Implies(z3.And(j >= 0, j < n, j != l, j != l + 1), G.fn(j) == GAM(j)),
        z3.Implies(z3.And(j >= 0, j <= n, j != l + 1), L.fn(j) == LAM(j))))
    for nm in ('_phys_es', '_pt_es', '_lam_gam_es', '_gam_lam_es'):
        f = z3.Function('edge0_' + nm, IntS, V)
        ip.prove('tebd/writes-frame[%s]' % nm, z3.Implies(z3.And(j >= 0, j < n, j != l, j != l + 1), o.fields[nm].fn(j) == f(j)))


# ---- order independence within a layer
def scen_layer(parallel, order):
    def scen(ip, repo):
        n = Int('n_sites')
        ls = [Int('l%d' % k) for k in range(len(order))]
        ip.assume(n >= 2)
        for k, l in enumerate(ls):
            ip.assume(z3.And(l >= 0, l + 1 < n, l % 2 == ls[0] % 2), 'tebd/layer-parity: all left sites of a layer have the same parity')
        for a in range(len(ls)):
            for b in range(a + 1, len(ls)):
                ip.assume(ls[a] != ls[b])
        o = backend_obj(repo, n, parallel)
        gates = [gate(k, ls[k]) for k in order]
        layer = Obj('Layer', {'gates': gates})
        return {'args': [o, layer], 'o': o, 'n': n, 'inputs': {'n': n, 'sites': ls, 'order': list(order), 'parallel': parallel}}
    return scen


def canonical_result(ctx_n, k_sites):
    pass


def post_layer(ip, ctx, out):
    if out.raised('NotImplementedError'):
        return ip.prove('path-accounted', z3.BoolVal(True))
    if not expect_no_other_exception(ip, out):
        return
    o, n = ctx['o'], ctx['n']
    ls = ctx['inputs']['sites']
    j = fresh_int('j')
    # canonical result: every gate acts on the ORIGINAL tensors of its five slots
    def comp(c, k):
        l = ls[k]
        return GateOut(c, LAM(l), GAM(l), LAM(l + 1), GAM(l + 1), LAM(l + 2), uf('tn_Node', Vc('gate_l_%d' % k)), uf('tn_Node', Vc('gate_r_%d' % k)), l)
    wantG, wantL = GAM(j), LAM(j)
    for k in range(len(ls)):
        wantG = z3.If(j == ls[k], comp(0, k), z3.If(j == ls[k] + 1, comp(2, k), wantG))
        wantL = z3.If(j == ls[k] + 1, comp(1, k), wantL)
    G, L = o.fields['_gammas'], o.fields['_lambdas']
    ip.prove('tebd/order-independent', z3.And(z3.Implies(z3.And(j >= 0, j < n), G.fn(j) == wantG),
                                              z3.Implies(z3.And(j >= 0, j <= n), L.fn(j) == wantL)))


# ---- Trotter layers and order sequences
def mps_registry():
    R = Registry()

    @model
    def m_nn_gate(ip, args, kw):
        return Obj('NnGateRec', {'site': kw['site'], 'dt': kw['dt'], 'liou': kw['liouvillian']})

    @model
    def m_layer(ip, args, kw):
        return Obj('LayerRec', {'gates': kw['gates'], 'parallel': kw.get('parallel')})

    @model
    def m_prop(ip, args, kw):
        return Obj('PropRec', {'layers': kw['gate_layers']})
    R.models['mps_mpo.compute_nn_gate'] = m_nn_gate
    R.models['mps_mpo.GateLayer'] = m_layer
    R.models['mps_mpo.TebdPropagator'] = m_prop

    def template(ip, frame, k):
        g = ip.ghost['trotter']
        return {'@facts': [k >= 0], 'all_gates': Seq(k, lambda i: ('gate', i), 'list')}
    return R


def scen_trotter(nbonds):
    def scen(ip, repo):
        liouvs = [Vc('L%d' % i) for i in range(nbonds)]
        hs = [Int('d%d' % i) for i in range(nbonds + 1)]
        return {'args': [liouvs, hs, Real('dt'), Real('epsrel')], 'nb': nbonds, 'inputs': {'bonds': nbonds}}
    return scen


def post_trotter(ip, ctx, out):
    if not expect_no_other_exception(ip, out):
        return
    even, odd = out.value
    ge, go = even.fields['gates'], odd.fields['gates']
    ok = all(concrete_int(g.fields['site']) % 2 == 0 for g in ge) and all(concrete_int(g.fields['site']) % 2 == 1 for g in go)
    sites = sorted([concrete_int(g.fields['site']) for g in ge + go])
    ip.prove('tebd/layer-parity', z3.BoolVal(ok and sites == list(range(ctx['nb']))))


def scen_tebd_prop(order):
    def scen(ip, repo):
        chain = Obj('ChainM', {'hs_dims': [Int('d0'), Int('d1'), Int('d2')]})
        return {'args': [], 'kwargs': {'system_chain': chain, 'time_step': Real('tau'), 'epsrel': Real('epsrel'), 'order': order},
                'order': order, 'inputs': {'order': order}}
    return scen


def prop_registry():
    R = mps_registry()

    @model
    def m_liouvs(ip, args, kw):
        return [Vc('L0'), Vc('L1')]
    R.models['ChainM.get_nn_full_liouvillians'] = m_liouvs
    return R


def post_tebd_prop(ip, ctx, out):
    order = ctx['order']
    if order not in (1, 2):
        return ip.prove('tebd/order-sequences', z3.BoolVal(out.raised('NotImplementedError')))
    if not expect_no_other_exception(ip, out):
        return
    layers = out.value.fields['layers']
    tau = Real('tau')

    def par(l):
        return [concrete_int(g.fields['site']) % 2 for g in l.fields['gates']]
    seq = [('even' if set(par(l)) <= {0} else 'odd') for l in layers]
    want = ['even', 'odd'] if order == 1 else ['even', 'odd', 'odd', 'even']
    dts = [g.fields['dt'] for l in layers for g in l.fields['gates']]
    want_dt = tau if order == 1 else tau / 2
    ip.prove('tebd/order-sequences', z3.And([z3.BoolVal(seq == want)] + [veq(d, want_dt) for d in dts]))


# ---- process tensor index used by apply_process_tensors
def pts_registry():
    R = tebd_registry()

    @model
    def pt_get(ip, args, kw):
        ip.log.append(('get_mpo_tensor', args[0].fields['site'], to_int(args[1])))
        return None
    R.models['PTsite.get_mpo_tensor'] = pt_get
    return R


def scen_pts(ip, repo):
    step = Int('step')
    n = 3
    o = backend_obj(repo, z3.IntVal(n), None)
    pts = [Obj('PTsite', {'site': i}) for i in range(n)]
    return {'args': [o, step, pts], 'step': step, 'n': n, 'inputs': {'step': step}}


def post_pts(ip, ctx, out):
    if not expect_no_other_exception(ip, out):
        return
    calls = [e for e in ip.log if e[0] == 'get_mpo_tensor']
    ok = len(calls) == ctx['n'] and [c[1] for c in calls] == list(range(ctx['n']))
    ip.prove('tebd/pt-index', z3.And([z3.BoolVal(ok)] + [c[2] == ctx['step'] - 1 for c in calls]))



# ---------------------------------------------------------------------------------
# traces, norm and reduced density matrices (tnnorm back end: free tensor symbols, all sizes)
from pyvc.values import is_z3
import itertools as _it
import time as _time
from pyvc import tnnorm as _tn
from pyvc.tnnorm import TArr, TNode, equal as _tequal
from pyvc.interp import Interp as _Interp
from pyvc.modules import Repo as _Repo, describe as _describe
from pyvc import values as _Vv


def spec_dm(n, S, gam=None, lam_names=None):
    """SPEC(S): the chain  ONE - G_0.cap_0 - l_0 - G_1.cap_1 - ... - G_{n-1}.cap_{n-1} - ONE  with the
    physical leg of every site not in S closed with VECID (= vec of the identity, the partial
    trace in Liouville space) and the legs of S split in (row, column) and grouped row-major:
    rho_S[(r_s..), (c_s..)].  By construction  Tr_j SPEC(S) = SPEC(S - {j})  (closing the split
    leg of j with a delta IS contraction with VECID), so code that meets SPEC for every S yields
    mutually consistent reduced density matrices and  SPEC({}) = norm."""
    b = [_tn.new_label() for _ in range(n + 1)]
    p = [_tn.new_label() for _ in range(n)]
    c = [_tn.new_label() for _ in range(n)]
    f = [('ONE', (b[0],)), ('ONE', (b[n],))]
    for i in range(n):
        if gam and i in gam:
            f += gam[i](b[i], p[i], c[i], b[i + 1])
        else:
            f.append(('G%d' % i, (b[i], p[i], c[i], b[i + 1])))
        f.append(('cap%d' % i, (c[i],)))
        if i not in S:
            f.append(('VECID', (p[i],)))
    for j in range(1, n):
        f.append(('l%d' % (j - 1), (b[j],)))
    S = sorted(S)
    if len(S) == 0:
        out = []
    elif len(S) == 1:
        out = [('half', p[S[0]], 'L'), ('half', p[S[0]], 'R')]
    else:
        out = [('flat',) + tuple(('half', p[s_], 'L') for s_ in S), ('flat',) + tuple(('half', p[s_], 'R') for s_ in S)]
    return TArr(f, out)


class TraceTarget:
    """PtTebdBackend: __init__ -> [site gate, process-tensor layer] -> compute_traces -> get_norm /
    get_density_matrix(S) for EVERY sorted non-empty subset S of the n sites, all run from the
    real source on free tensor symbols; obligation: result == SPEC(S)."""

    def __init__(self, n, evolve=False, query_first=False, prop=None):
        self.n, self.evolve, self.query_first = n, evolve, query_first
        self.name = 'trace/density-matrices[n=%d%s%s]' % (n, ',after site gate + process tensors' if evolve else '',
                                                        ',density matrix queried before the evolution' if query_first else '')
        self.qualname = 'backends.pt_tebd_backend.PtTebdBackend.get_density_matrix'
        self.prop = prop or PROP

    def replay(self, ob):
        if self.query_first:
            return {'func': 'tebd_query_between_computes', 'inputs': {'obligation': ob['name']}} if self.prop == 'C14' else \
                {'func': 'query_between_steps', 'inputs': {'obligation': ob['name']}}
        return {'func': 'partial_trace_consistency', 'inputs': {'obligation': ob['name']}}

    def run(self, timeout_ms, tier):
        t0 = _time.time()
        repo = _Repo()
        q = 'backends.pt_tebd_backend.PtTebdBackend'
        res = {'target': self.name, 'function': self.qualname, 'property': self.prop, 'paths': 0, 'obligations': [],
               'undecided': [], 'errors': [], 'flags': ['FREE_TENSOR_SYMBOLS'], 'lib_pure': [],
               'lib_used': ['tensornetwork (Node, ^, @, copy, Node.copy, split_edge, flatten_edges, reorder_edges, get_tensor)',
                            'numpy.identity/diag/array/reshape']}
        cls = repo.resolve(q)
        fref = repo.resolve(self.qualname)
        if cls is None or fref is None:
            res['undecided'].append('contract target missing: %s' % self.qualname)
            return res
        res['function_info'] = _describe(fref)
        R = Registry()
        _tn.install(R)

        @model
        def m_array(ip, args, kw):
            v = args[0]
            if isinstance(v, TArr):
                return v
            if isinstance(v, list) and len(v) == 1:
                return TArr.sym('ONE', 1)          # np.array([1.0]): closes a bond of dimension 1
            raise Unsupported('np.array in wiring context')

        @model
        def m_isqrt(ip, args, kw):
            """_isqrt(d*d) = d (dimensions are not represented)"""
            return _tn.TDim('isqrt(%s)' % getattr(args[0], 'desc', args[0]))

        @model
        def m_complex(ip, args, kw):
            return args[0]
        R.lib_models['numpy.array'] = m_array
        R.models['backends.pt_tebd_backend._isqrt'] = m_isqrt
        R.inline_all = True
        n = self.n

        def fresh_backend(ip):
            gam = [TArr.sym('G%d' % i, 4) for i in range(n)]
            lam = [TArr.sym('l%d' % i, 1) for i in range(n - 1)]
            return ip.call(cls, [gam, lam, Real('epsrel'), {}], {})

        def pts(ip):
            def mk(i):
                @model
                def cap(ip_, a, k):
                    return TArr.sym('cap%d' % i, 1)

                @model
                def mpo(ip_, a, k):
                    return TArr.sym('mpo%d' % i, 4) if i != 1 else None      # site 1 has no process tensor
                return Obj('PT', {'get_cap_tensor': Builtin('pt.get_cap_tensor', cap), 'get_mpo_tensor': Builtin('pt.get_mpo_tensor', mpo)})
            return [mk(i) for i in range(n)]
        subsets = [list(c) for k in range(1, n + 1) for c in _it.combinations(range(n), k)]
        gspec = None
        if self.evolve:
            # gate M on site 0:  G0[a,p,c,b] M[p',p];   process tensor mpo_i[c, c', p, p'] on its pt/physical legs
            def g(i):
                def f(bl, pl, cl, br):
                    x, y = _tn.new_label(), _tn.new_label()
                    fs = []
                    if i == 0:
                        z = _tn.new_label()
                        fs += [('G0', (bl, z, x, br)), ('M', (y, z))]
                    else:
                        fs += [('G%d' % i, (bl, y, x, br))]
                    if i != 1:
                        fs += [('mpo%d' % i, (x, cl, y, pl))]
                    else:
                        # no process tensor on site 1: legs stay
                        fs = [(nm, tuple(pl if l == y else cl if l == x else l for l in ls)) for nm, ls in fs]
                    return fs
                return f
            gspec = {i: g(i) for i in range(n)}
        for S in [None] + subsets:
            _Vv.reset_fresh()
            ip = _Interp(repo, R, [], solver_timeout_ms=timeout_ms)
            nm = 'trace/norm' if S is None else 'trace/density-matrix[sites=%s]' % ','.join(map(str, S))
            try:
                be = fresh_backend(ip)
                P = pts(ip)
                if self.query_first:
                    # an observer in between (PtTebd.get_current_density_matrix): traces computed and left behind
                    ip.call(repo.resolve(q + '.compute_traces'), [be, 2, P], {})
                    ip.call(fref, [be, [0]], {})
                if self.evolve:
                    gate_ = Obj(repo.resolve('mps_mpo.SiteGate'), {'sites': [0], 'tensors': (TArr.sym('M', 2),)})
                    ip.call(repo.resolve(q + '.apply_site_gate'), [be, gate_], {})
                    ip.call(repo.resolve(q + '.apply_process_tensors'), [be, 3, P], {})
                ip.call(repo.resolve(q + '.compute_traces'), [be, 3, P], {})
                if S is None:
                    got = be.fields['_total_trace']
                    want = spec_dm(n, [], gspec)
                else:
                    got = ip.call(fref, [be, list(S)], {})
                    want = spec_dm(n, S, gspec)
                ok = isinstance(got, TArr) and _tequal(got, want)
                info = {'computed': repr(got), 'required': repr(want)}
            except PyRaise as pr:
                ok, info = False, {'exception': pr.exc.typ, 'sites': S}
            except Unsupported as u:
                res['undecided'].append('unsupported construct: %s' % u)
                continue
            res['obligations'].append({'name': nm, 'backend': 'tnnorm', 'flags': ['FREE_TENSOR_SYMBOLS'], 'info': info, 'model': info,
                                       'pc_sat': 'sat', 'result': 'discharged' if ok else 'refuted', 'seconds': 0.0})
            res['paths'] += 1
        res['seconds'] = round(_time.time() - t0, 3)
        return res


# ---------------------------------------------------------------------------------
# SystemChain.get_nn_full_liouvillians: how the single-site terms are shared among the bonds
class LinV:
    """formal linear combination of named operators (value domain for the assembly of the two-site Liouvillians)"""

    def __init__(self, terms):
        self.terms = {k: v for k, v in terms.items() if v != 0}

    @staticmethod
    def atom(*key):
        return LinV({tuple(key): 1})

    def key(self):
        if len(self.terms) != 1 or list(self.terms.values())[0] != 1:
            raise Unsupported('operator product of a linear combination')
        return list(self.terms)[0]

    def pv_binop(self, ip, opname, other, reflected=False):
        from fractions import Fraction
        if is_z3(other):
            v = z3.simplify(other)
            if z3.is_rational_value(v) or z3.is_int_value(v):
                other = Fraction(v.numerator_as_long(), v.denominator_as_long()) if z3.is_rational_value(v) else v.as_long()
        if opname == 'mul' and isinstance(other, Fraction):
            return LinV({k: v * other for k, v in self.terms.items()})
        if opname == 'mul' and isinstance(other, (int, float)) and not isinstance(other, bool):
            c = Fraction(other).limit_denominator(1 << 20)
            return LinV({k: v * c for k, v in self.terms.items()})
        if opname == 'add' and isinstance(other, LinV):
            t = dict(self.terms)
            for k, v in other.terms.items():
                t[k] = t.get(k, 0) + v
            return LinV(t)
        if opname == 'add' and isinstance(other, (int, float)) and other == 0:
            return self
        raise Unsupported('operator %s on a linear combination' % opname)


class SharesTarget:
    """real SystemChain.get_nn_full_liouvillians for chain lengths 2..6 on named operators: bond i gets its own two-site
    term once and the single-site terms of its two sites (as L_i (x) 1 and 1 (x) L_{i+1}); over all bonds every single-site
    term is counted exactly once (weights sum to one) and never on a bond it does not belong to"""

    def __init__(self, n):
        self.n, self.name, self.prop = n, 'chain/site-shares[n=%d]' % n, PROP
        self.qualname = 'system.SystemChain.get_nn_full_liouvillians'

    def replay(self, ob):
        return {'func': 'uncoupled_chain_is_single_sites', 'inputs': {'obligation': ob['name']}}

    def run(self, timeout_ms, tier):
        from fractions import Fraction
        t0 = _time.time()
        repo = _Repo()
        res = {'target': self.name, 'function': self.qualname, 'property': PROP, 'paths': 1, 'obligations': [], 'undecided': [], 'errors': [],
               'flags': [], 'lib_pure': [], 'lib_used': ['numpy.kron / numpy.identity as formal operators']}
        fref = repo.resolve(self.qualname)
        if fref is None:
            res['undecided'].append('contract target missing: %s' % self.qualname)
            return res
        res['function_info'] = _describe(fref)
        R = Registry()

        @model
        def m_identity(ip, args, kw):
            return LinV.atom('id', str(z3.simplify(to_int(args[0])) if not isinstance(args[0], int) else args[0]))

        @model
        def m_kron(ip, args, kw):
            return LinV.atom('kron', args[0].key(), args[1].key())
        R.lib_models['numpy.identity'] = m_identity
        R.lib_models['numpy.kron'] = m_kron
        n = self.n
        dims = [Int('d%d' % i) for i in range(n)]
        obj = mkobj(repo, 'system.SystemChain', _hs_dims=dims, _site_liouvillians=[LinV.atom('site', i) for i in range(n)],
                    _nn_liouvillians=[LinV.atom('nn', i) for i in range(n - 1)])
        _Vv.reset_fresh()
        ip = _Interp(repo, R, [], solver_timeout_ms=timeout_ms)

        def ob(name, ok, info):
            res['obligations'].append({'name': name, 'backend': 'formal linear combinations (decided on the path)', 'flags': [], 'info': info, 'model': info,
                                       'pc_sat': 'sat', 'result': 'discharged' if ok else 'refuted', 'seconds': 0.0})
        try:
            out = ip.call(fref, [obj], {})
            sq = lambda i: str(z3.simplify(dims[i] * dims[i]))
            weight = {j: Fraction(0) for j in range(n)}
            ok_len = isinstance(out, list) and len(out) == n - 1
            ob('chain/one-liouvillian-per-bond', ok_len, {'returned': len(out) if isinstance(out, list) else repr(out)})
            for i, L in enumerate(out if ok_len else []):
                left = ('kron', ('site', i), ('id', sq(i + 1)))
                right = ('kron', ('id', sq(i)), ('site', i + 1))
                terms = dict(L.terms) if isinstance(L, LinV) else {}
                own = terms.pop(('nn', i), 0) == 1
                wl, wr = terms.pop(left, 0), terms.pop(right, 0)
                weight[i] += wl
                weight[i + 1] += wr
                ob('chain/bond-terms[bond %d]' % i, own and not terms and wl > 0 and wr > 0,
                   {'bond': i, 'own two-site term once': own, 'foreign terms': [str(k) for k in terms], 'weights (left site, right site)': [str(wl), str(wr)]})
            ob('chain/site-terms-counted-once', all(w == 1 for w in weight.values()), {'total weight per site': {j: str(w) for j, w in weight.items()}})
        except Unsupported as u:
            res['undecided'].append('unsupported construct: %s' % u)
        except PyRaise as pr:
            ob('unexpected-exception/' + pr.exc.typ, False, {})
        res['seconds'] = round(_time.time() - t0, 3)
        return res


def rp(ob):
    return {'func': 'parallel_modes', 'inputs': {'obligation': ob['name']}}


def targets(tier='quick'):
    T = [NamesTarget()]
    R = tebd_registry()
    q = 'backends.pt_tebd_backend.PtTebdBackend.'
    T.append(Target('tebd/reads', q + '_apply_nn_gate_get_data', scen_reads, post_reads, R, PROP, replay=rp))
    T.append(Target('tebd/writes', q + '_apply_nn_gate_replace_gam_lam_gam', scen_writes, post_writes, R, PROP, replay=rp))
    import itertools
    for par in (None, 'multithread', 'multiprocess'):
        for k in (2, 3):
            orders = list(itertools.permutations(range(k))) if par is None else [tuple(range(k))]
            for order in orders:
                T.append(Target('tebd/layer[%s,%s]' % (par, ''.join(map(str, order))), q + 'apply_nn_gate_layer', scen_layer(par, order),
                                post_layer, R, PROP, replay=rp))
    T.append(Target('tebd/layer[unknown mode]', q + 'apply_nn_gate_layer', scen_layer('gpu', (0, 1)), post_layer, R, PROP))
    # a layer WITHOUT gates (the odd layer of a two-site chain) is a layer too: nothing changes, in every mode
    for par in (None, 'multithread', 'multiprocess'):
        T.append(Target('tebd/layer[%s,empty]' % par, q + 'apply_nn_gate_layer', scen_layer(par, ()), post_layer, R, PROP, replay=rp))
    RM = mps_registry()
    for nb in (1, 2, 3, 4, 5):
        T.append(Target('tebd/trotter-layers[bonds=%d]' % nb, 'mps_mpo.compute_trotter_layers', scen_trotter(nb), post_trotter, RM, PROP))
    RP = prop_registry()
    for order in (1, 2, 3):
        T.append(Target('tebd/propagator[order=%d]' % order, 'mps_mpo.compute_tebd_propagator', scen_tebd_prop(order), post_tebd_prop, RP, PROP))
    T.append(Target('tebd/pt-index', q + 'apply_process_tensors', scen_pts, post_pts, pts_registry(), PROP))
    for n in (2, 3, 4, 5, 6):
        T.append(TraceTarget(n))
    T.append(TraceTarget(3, evolve=True))
    T.append(TraceTarget(3, evolve=True, query_first=True))
    for n in (2, 3, 4, 5, 6):
        T.append(SharesTarget(n))
    from . import wire
    T.append(wire.ChainAssemblyTarget(PROP))       # what the chain hands to PT-TEBD IS the documented two-site generator
    T.append(wire.OperatorsTarget(PROP, replay_func='two_site_chain_vs_dense'))
    return T


META = {'level': 'proof', 'explanation': '', 'trusted_base': [], 'clauses': []}


# ---- the two-site update itself: _apply_nn_gate (Vidal form), real code on free tensors (tnnorm, SVDs as exact factorisations)
class NnGateTarget:
    """_apply_nn_gate(site, lam_l, gam_l, lam_m, gam_r, lam_r, gate_l, gate_r, epsrel) returns (site, gam_l', lam_m', gam_r') such that
    with nothing truncated      lam_l gam_l' lam_m' gam_r' lam_r  ==  (gate_l gate_r) applied to the physical legs of  lam_l gam_l lam_m gam_r lam_r
    (open legs: left bond, new physical leg and process-tensor leg of either site, right bond), the lambdas being diagonal matrices whose
    reciprocals (_invert_lambda, real code) cancel against them; every SVD is asked for max_truncation_err = epsrel, relative = True;
    the three returned nodes are disconnected, gammas with legs (bond, physical, process tensor, bond)."""

    def __init__(self, prop=PROP):
        self.prop, self.name, self.qualname = prop, 'tebd/nn-gate-update', 'backends.pt_tebd_backend._apply_nn_gate'

    def replay(self, ob):
        return {'func': 'nn_gate_parameters' if 'parameters' in ob['name'] else 'two_site_chain_vs_dense', 'inputs': {'obligation': ob['name']}}

    def run(self, timeout_ms, tier):
        import time
        from pyvc import tnnorm
        from pyvc.tnnorm import TArr, TNode, equal, contract_between
        from pyvc.interp import Interp
        from pyvc.modules import Repo, describe
        from pyvc import values as Vv
        t0 = time.time()
        repo = Repo()
        res = {'target': self.name, 'function': self.qualname, 'property': self.prop, 'paths': 0, 'obligations': [], 'undecided': [], 'errors': [],
               'flags': ['FREE_TENSOR_SYMBOLS', 'SVD_AS_EXACT_FACTORISATION'], 'lib_pure': [],
               'lib_used': ['tensornetwork.Node, ^, @, split_node_full_svd, contractors.optimal, Edge.disconnect (contracts)'], 'functions_extra': []}
        fref = repo.resolve(self.qualname)
        if fref is None:
            res['undecided'].append('contract target missing: %s' % self.qualname)
            return res
        res['functions_extra'].append(describe(fref))
        R = Registry()
        tnnorm.install(R)

        @model
        def m_is_diag(ip, args, kw):
            t = args[0]
            if isinstance(t, TArr) and t.rank == 2 and t.out[0] == t.out[1]:
                return True
            raise Unsupported('_is_diagonal_matrix of a tensor that is not written as a diagonal')
        R.models['backends.pt_tebd_backend._is_diagonal_matrix'] = m_is_diag
        Vv.reset_fresh()
        ip = Interp(repo, R, [], solver_timeout_ms=timeout_ms)
        LL, LM, LR = TArr.diag_sym('LL'), TArr.diag_sym('LM'), TArr.diag_sym('LR')
        GL, GR = TArr.sym('GL', 4), TArr.sym('GR', 4)
        UL, UR = TArr.sym('UL', 3), TArr.sym('UR', 3)
        eps = Real('epsrel')

        def ob(name, ok, info):
            res['obligations'].append({'name': name, 'backend': 'tnnorm', 'flags': res['flags'], 'info': info, 'model': info, 'pc_sat': 'sat',
                                       'result': 'discharged' if ok else 'refuted', 'seconds': 0.0})
        try:
            out = ip.call(fref, [Int('site'), TNode(LL), TNode(GL), TNode(LM), TNode(GR), TNode(LR), TNode(UL), TNode(UR), eps], {})
        except Unsupported as u:
            res['undecided'].append('unsupported construct in _apply_nn_gate: %s' % u)
            return res
        except PyRaise as pr:
            ob('tebd/nn-gate/no-exception', False, {'exception': pr.exc.typ})
            return res
        res['paths'] = 1
        site, gl, lm, gr = out
        nodes_ok = all(isinstance(x, TNode) for x in (gl, lm, gr))
        ob('tebd/nn-gate/returns-site-and-three-nodes', nodes_ok and site is not None and to_z3(site).eq(Int('site')), {'returned': repr(out)[:200]})
        if not nodes_ok:
            return res
        ob('tebd/nn-gate/returned-nodes-are-disconnected', all(e.is_dangling() for x in (gl, lm, gr) for e in x.edges) and (gl.arr.rank, lm.arr.rank, gr.arr.rank) == (4, 2, 4),
           {'ranks': [gl.arr.rank, lm.arr.rank, gr.arr.rank]})
        calls = ip.ghost.get('svd_calls', [])
        ob('tebd/nn-gate/truncation-parameters', len(calls) == 3 and all(c.get('max_truncation_err') is eps and c.get('relative') is True and c.get('max_singular_values') is None
                                                                      for c in calls), {'calls': [{k: repr(v) for k, v in c.items()} for c in calls]})
        # lam_l gam_l' lam_m' gam_r' lam_r  against the gates applied to the old two-site block
        try:
            a, b = TNode(LL), TNode(LR)
            a.edges[1].pv_binop(ip, 'xor', gl.edges[0])
            gl.edges[3].pv_binop(ip, 'xor', lm.edges[0])
            lm.edges[1].pv_binop(ip, 'xor', gr.edges[0])
            gr.edges[3].pv_binop(ip, 'xor', b.edges[0])
            order = [a.edges[0], gl.edges[1], gl.edges[2], gr.edges[1], gr.edges[2], b.edges[1]]
            c = a
            for n in (gl, lm, gr, b):
                c = contract_between(c, n)
            perm = [next(i for i, e in enumerate(c.edges) if e is x) for x in order]
            got = c.arr.permute(perm)
        except (Unsupported, StopIteration, PyRaise) as ex:
            got = None
        l = {k: tnnorm.new_label() for k in 'abcpqtsgPQ'}
        want = TArr([('LL', (l['a'],)), ('GL', (l['a'], l['p'], l['t'], l['b'])), ('LM', (l['b'],)), ('GR', (l['b'], l['q'], l['s'], l['c'])), ('LR', (l['c'],)),
                     ('UL', (l['P'], l['p'], l['g'])), ('UR', (l['g'], l['Q'], l['q']))], [l['a'], l['P'], l['t'], l['Q'], l['s'], l['c']])
        ob('tebd/nn-gate/block-is-the-gated-block', got is not None and equal(got, want), {'lam_l gam_l\' lam_m\' gam_r\' lam_r': repr(got), 'required': repr(want)})
        res['seconds'] = round(time.time() - t0, 3)
        return res


_t_c10 = targets


def targets(tier='quick'):
    return _t_c10(tier) + [NnGateTarget()]
