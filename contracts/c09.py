"""C09 — mean-field evolution: the field is advanced with the Heun rule at the right times.

Heun(f, t, dt, rho, a, rho') = a + dt/2 ( f(t, rho, a) + f(t+dt, rho', a + dt f(t, rho, a)) )
a_0 = initial field, a_{k+1} = Heun(f, t_k, dt, rho_k, a_k, rho_{k+1}),  t_k = start_time + k dt.
f = the user's field_eom: uninterpreted (and may raise).
"""
import z3
from .common import *
from . import dyn

PROP = 'C09'
IntS, RealS = z3.IntSort(), z3.RealSort()


def cx_mul_r(r, c):
    return Cx(r * c.re, r * c.im)


def cx_add(a, b):
    return Cx(a.re + b.re, a.im + b.im)


def f_eom(t, states, a):
    """the user's field equation as an uninterpreted complex-valued function"""
    return Cx(uf('field_eom_re', t, states, a, sort=RealS), uf('field_eom_im', t, states, a, sort=RealS))


def heun(t, dt, rho, a, rho2):
    k1 = f_eom(t, rho, a)
    k2 = f_eom(t + dt, rho2, cx_add(a, cx_mul_r(dt, k1)))
    return cx_add(a, cx_mul_r(dt / 2, cx_add(k1, k2)))


def cx_eq(a, b):
    return z3.And(a.re == b.re, a.im == b.im)


@model
def m_field_eom(ip, args, kw):
    self_, t, states, a = args
    ip.log.append(('field_eom', t))
    if ip.may_raise('field_eom-raises'):
        ip.log.append(('user-raise', 'field_eom'))
        raise PyRaise(ExcVal('UserError', ('field_eom',)))
    return f_eom(to_real(t), states, a)


# ---- MeanFieldTempo._compute_field / _compute_field_derivative
def mft_self(ip, repo):
    start, dt = Real('start_time'), Real('dt')
    ip.assume(dt > 0)
    nsys = Int('nsys')
    ip.assume(nsys >= 1)
    hs, _, _ = int_seq('hs_dims', nsys)
    params = mkobj(repo, 'tempo.TempoParameters', _dt=dt)
    mfs = Obj('MFS', {})
    self_ = mkobj(repo, 'tempo.MeanFieldTempo', _start_time=start, _parameters=params,
                  _parsed_parameters_dict={'hs_dim': hs}, _mean_field_system=mfs)
    return self_, start, dt, nsys, hs


def _reshaped(states, hs):
    return Seq(z3.If(states.length < hs.length, states.length, hs.length),
               lambda i: uf('meth_reshape', states.fn(i), (hs.fn(i), hs.fn(i))), 'list')


def scen_compute_field(ip, repo):
    self_, start, dt, nsys, hs = mft_self(ip, repo)
    step = Int('step')
    rho, _, _ = v_seq('rho', nsys)
    rho2, _, _ = v_seq('rho_next', nsys)
    a = Cx(Real('a_re'), Real('a_im'))
    return {'args': [self_, step, rho, a, rho2], 'start': start, 'dt': dt, 'step': step, 'hs': hs,
            'rho': rho, 'rho2': rho2, 'a': a, 'inputs': {'start_time': start, 'dt': dt, 'step': step}}


def post_compute_field(ip, ctx, out):
    if out.raised('UserError'):
        return ip.prove('path-accounted', z3.BoolVal(True))
    if not expect_no_other_exception(ip, out):
        return
    t = ctx['start'] + z3.ToReal(ctx['step']) * ctx['dt']
    want = heun(t, ctx['dt'], _reshaped(ctx['rho'], ctx['hs']), ctx['a'], _reshaped(ctx['rho2'], ctx['hs']))
    ip.prove('mf/heun-at-step', cx_eq(to_cx(out.value), want))


def scen_field_derivative(ip, repo):
    self_, start, dt, nsys, hs = mft_self(ip, repo)
    step = Int('step')
    rho, _, _ = v_seq('rho', nsys)
    a = Cx(Real('a_re'), Real('a_im'))
    return {'args': [self_, step, rho, a], 'start': start, 'dt': dt, 'step': step, 'hs': hs,
            'rho': rho, 'a': a, 'inputs': {'start_time': start, 'dt': dt, 'step': step}}


def post_field_derivative(ip, ctx, out):
    if out.raised('UserError'):
        return ip.prove('path-accounted', z3.BoolVal(True))
    if not expect_no_other_exception(ip, out):
        return
    t = ctx['start'] + z3.ToReal(ctx['step']) * ctx['dt']
    ip.prove('mf/derivative-at-step', cx_eq(to_cx(out.value), f_eom(t, _reshaped(ctx['rho'], ctx['hs']), ctx['a'])))


# ---- lemma: Heun is exact for equations of motion linear in time
def lemma_linear_exact():
    class L:
        name = 'mf/heun-exact-for-linear-in-time'

        def run(self, timeout_ms, tier):
            import time
            t0 = time.time()
            al, be, t, dt, a = z3.Reals('alpha beta t dt a')
            # f(t,.,.) = alpha + beta t (real and imaginary parts separately; one real suffices)
            k1 = al + be * t
            k2 = al + be * (t + dt)
            nxt = a + dt / 2 * (k1 + k2)
            exact = a + al * dt + be * ((t + dt) * (t + dt) - t * t) / 2
            s = z3.Solver()
            s.set('timeout', timeout_ms)
            s.add(nxt != exact)
            r = s.check()
            ob = {'name': self.name, 'backend': 'z3', 'flags': ['REAL_FLOAT'], 'info': {},
                  'pc_sat': 'sat', 'result': 'discharged' if r == z3.unsat else ('refuted' if r == z3.sat else 'unknown'),
                  'seconds': round(time.time() - t0, 3)}
            return {'target': self.name, 'function': '(lemma over the Heun spec function)', 'property': PROP,
                    'paths': 1, 'obligations': [ob], 'undecided': [], 'errors': [], 'flags': ['REAL_FLOAT'],
                    'lib_pure': [], 'lib_used': [], 'seconds': ob['seconds']}
    return L()


def replay_field(ob):
    if 'nsys=2' in (ob.get('target') or ''):
        return {'func': 'field_linear_time_and_lengths', 'inputs': {'obligation': ob['name'], 'model': ob.get('model')}}
    return {'func': 'field_linear_time', 'inputs': {'obligation': ob['name'], 'model': ob.get('model')}}


def targets(tier='quick'):
    R = Registry()
    R.models['MFS.field_eom'] = m_field_eom
    T = []
    rpf = lambda ob: {'func': 'mean_field_shift', 'inputs': {'obligation': ob['name']}}
    T.append(Target('mf/heun-at-step', 'tempo.MeanFieldTempo._compute_field', scen_compute_field, post_compute_field, R, PROP, replay=rpf))
    T.append(Target('mf/derivative-at-step', 'tempo.MeanFieldTempo._compute_field_derivative', scen_field_derivative, post_field_derivative, R, PROP,
                    replay=rpf))
    T.append(lemma_linear_exact())
    return T


META = {'level': 'proof', 'explanation': '', 'trusted_base': [], 'clauses': []}


# ---- compute_dynamics_with_field: the field sequence
def post_cdwf(ip, ctx, out):
    from . import dynf
    from pyvc.lib import as_seq
    g = ctx['g']
    N, ra = g['num_steps'], g['record_all']
    if not out.returned:
        return ip.prove('path-accounted', z3.BoolVal(True))
    d = out.value
    fields = as_seq(d.fields['fields'])
    states = as_seq(d.fields['states'])
    times = as_seq(d.fields['times'])
    j = fresh_int('j')
    dynf.define_ghosts(ip, g, N - 1)
    ip.prove('cdwf/len', z3.And(fields.length == z3.If(ra, N + 1, 1), states.length == fields.length,
                                times.length == fields.length))
    ip.prove('cdwf/field-sequence', z3.Implies(z3.And(ra, j >= 0, j <= N), cx_eq(to_cx(fields.fn(j)), dynf.A(j))))
    ip.prove('cdwf/field-final-only', z3.Implies(z3.Not(ra), cx_eq(to_cx(fields.fn(0)), dynf.A(N))))
    ip.prove('cdwf/states', z3.Implies(z3.And(ra, j >= 0, j <= N), veq(states.fn(j), dynf.rec_list(g['nsys'], j))))
    ip.prove('cdwf/times', z3.And(z3.Implies(z3.And(ra, j >= 0, j <= N), times.fn(j) == g['start_time'] + z3.ToReal(j) * g['dt']),
                                  z3.Implies(z3.Not(ra), times.fn(0) == g['start_time'] + z3.ToReal(N) * g['dt'])))


def scen_ff(integrate):
    def scen(ip, repo):
        dt, t0, step = Real('dt'), Real('start_time'), Int('step')
        ip.assume(z3.And(dt > 0, step >= 0))
        return {'dt': dt, 't0': t0, 'step': step, 'integrate': integrate, 'inputs': {'dt': dt, 'start_time': t0, 'step': step}}
    return scen


def invoke_ff(ip, repo, fref, ctx):
    from . import c15
    zero = z3.RealVal(0)
    H = c15.shifted_callable('H', zero)

    @model
    def H_ignoring_field(ip2, a2, k2):
        return ip2.call(H, [a2[0]], {})
    gam, lop = [c15.shifted_callable('gamma0', zero)], [c15.shifted_callable('lop0', zero)]
    plain = mkobj(repo, 'system.TimeDependentSystem', _hamiltonian=H, _gammas=gam, _lindblad_operators=lop, _dimension=Int('dim'))
    withf = mkobj(repo, 'system.TimeDependentSystemWithField', _hamiltonian=H_ignoring_field, _gammas=gam, _lindblad_operators=lop, _dimension=Int('dim'))
    subdiv = Int('subdiv_limit') if ctx['integrate'] else None
    gp = repo.resolve('system.TimeDependentSystem.get_propagators')
    p = ip.call(ip.call(gp, [plain, ctx['dt'], ctx['t0'], subdiv, Real('epsrel')], {}), [ctx['step']], {})
    a, da = Cx(Real('a_re'), Real('a_im')), Cx(Real('da_re'), Real('da_im'))
    q = ip.call(ip.call(fref, [withf, ctx['dt'], ctx['t0'], subdiv, Real('epsrel')], {}), [ctx['step'], a, da], {})
    return p, q


def post_ff(ip, ctx, out):
    if not expect_no_other_exception(ip, out):
        return
    (p1, p2), (q1, q2) = out.value
    ip.prove('sysf/field-free-equals-plain[first half]', p1 == q1)
    ip.prove('sysf/field-free-equals-plain[second half]', p2 == q2)


_t0 = targets


def post_dt_must_agree(ip, ctx, out):
    ip.prove('cdwf/parse/dt-must-agree', z3.BoolVal(out.kind == 'raise'),
             {'outcome': out.kind, 'required': 'an exception: the process tensors of the systems have different time steps'})


def targets(tier='quick'):
    from . import dynf
    T = _t0(tier)
    R = dynf.cdwf_registry()
    for ns in (1, 2):
        T.append(Target('cdwf/field-sequence[nsys=%d]' % ns, 'system_dynamics.compute_dynamics_with_field',
                        dynf.cdwf_scenario(ns), post_cdwf, R, PROP, max_paths=4000, replay=replay_field))
    # the systems are parsed one by one: when their process tensors do not agree on dt nothing may be computed on a common grid
    T.append(Target('cdwf/parse/dt-must-agree', 'system_dynamics.compute_dynamics_with_field', dynf.cdwf_scenario(2, dt_differs=True),
                    post_dt_must_agree, R, PROP, max_paths=400, replay=lambda ob: {'func': 'systems_of_different_length', 'inputs': {}}))
    # "a system whose Hamiltonian does not depend on the field evolves as in a plain TEMPO run": the propagators of a
    # TimeDependentSystemWithField with H'(t, a) = H(t) equal those of TimeDependentSystem(H) with the same rates and Lindblad
    # operators, for every step, field and field derivative (two-object relational contract; sampled and integrated modes)
    from . import c15
    for integ in (False, True):
        T.append(Target('sysf/field-free-propagators[%s]' % ('integrated' if integ else 'sampled'), 'system.TimeDependentSystemWithField.get_propagators',
                        scen_ff(integ), post_ff, c15.sys_registry(), PROP, invoke=invoke_ff,
                        replay=lambda ob: {'func': 'field_free_reduces_to_tempo', 'inputs': {'obligation': ob['name']}}))
    from . import wire
    T.append(wire.LiouvillianTarget(PROP))     # what the Liouvillian of (H, rates, Lindblad operators) is
    # MeanFieldTempo's own step: the system propagators are asked for the CURRENT step with the current field and derivative
    # (the contract of the back end, shared with C14; discharged here too so that this check stands on its own)
    from . import c14
    for nsys in (1, 2):
        t = Target('mf-backend/compute_step' + ('' if nsys == 1 else '[systems=%d]' % nsys), 'backends.tempo_backend.MeanFieldTempoBackend.compute_step',
                   (lambda n: lambda ip, repo: c14.scen_mfb_step(ip, repo, n))(nsys), c14.post_mfb_step, c14.mfb_registry(), PROP,
                   replay=lambda ob: {'func': 'mean_field_methods_agree', 'inputs': {'obligation': ob['name']}})
        # (exception atomicity of this step is C14's clause, with its open finding; here: which step/field the propagators get)
        t.keep = lambda name: name.startswith(('mfb/uses-current-step', 'mfb/step-post', 'unexpected-exception'))
        T.append(t)
    from . import prep
    T += [t for t in prep.targets(PROP, lambda ob: {'func': 'field_free_reduces_to_tempo', 'inputs': {'obligation': ob['name']}}) if 'MeanField' in t.name]
    return T
