"""C05 — every Hermitian coupling operator is accepted; the reported transform is unitary, the
eigenvalues real, and the operator is reproduced  (relative to the LAPACK contract of the
eigensolver the code actually calls).

ASSUMED library contracts (the crux):
  np.linalg.eig(A)  -> (w, v):  A v = v diag(w); columns normalised; NO orthogonality promise,
                                w complex (LAPACK geev)   => unitarity / reconstruction NOT implied
  np.linalg.eigh(A) -> (w, v) for Hermitian A:  w real, v unitary, A = v diag(w) v^H  (LAPACK heev)
  np.allclose -> uninterpreted "approximately equal" predicate (reflexive).
"""
import z3
from .common import *
from pyvc.values import is_v

PROP = 'C05'
BoolS = z3.BoolSort()
IsUnitary = z3.Function('is_unitary', V, BoolS)
IsReal = z3.Function('is_real', V, BoolS)
AllClose = z3.Function('allclose', V, V, BoolS)
MatMul = z3.Function('matmul', V, V, V)
Conj = z3.Function('meth_conjugate', V, V)
TrT = z3.Function('attr_T', V, V)
Diag = z3.Function('lib_numpy_diag', V, V)


def c05_registry():
    R = Registry()

    @model
    def m_allclose(ip, args, kw):
        a, b = args[0], args[1]
        a, b = [x if is_v(x) else uf('scalar_as_array', to_real(x)) for x in (a, b)]
        r = AllClose(a, b)
        ip.add_pc(z3.Implies(a == b, r))
        return r

    def matmul(ip, a, b):
        return MatMul(a, b)
    R.matmul = matmul

    @model
    def m_eig(ip, args, kw):
        A = args[0]
        w, v = uf('eig_w', A), uf('eig_v', A)
        ip.add_pc(z3.And(w != NONE, v != NONE))
        # LAPACK geev: eigen-equation only
        ip.add_pc(AllClose(MatMul(A, v), MatMul(v, Diag(w))))
        ip.ghost['eigensolver'] = 'eig'
        return w, v

    @model
    def m_eigh(ip, args, kw):
        A = args[0]
        w, v = uf('eigh_w', A), uf('eigh_v', A)
        ip.add_pc(z3.And(w != NONE, v != NONE))
        herm = ip.ghost.get('hermitian_input')
        # LAPACK heev, valid for Hermitian input: real spectrum, unitary vectors, reconstruction
        ip.add_pc(z3.Implies(herm == A if herm is not None else z3.BoolVal(False),
                             z3.And(IsReal(w), IsUnitary(v), IsReal(Diag(w)),
                                    AllClose(A, MatMul(MatMul(v, Diag(w)), TrT(Conj(v)))))))
        ip.ghost['eigensolver'] = 'eigh'
        return w, v

    @model
    def m_identity(ip, args, kw):
        r = uf('lib_numpy_identity', *args)
        ip.add_pc(z3.And(r != NONE, IsUnitary(r)))
        return r

    @model
    def m_row_deg(ip, args, kw):
        return uf('row_degeneracy', *args[0])

    @model
    def m_comm(ip, args, kw):
        return uf('commutator', args[0])

    @model
    def m_acomm(ip, args, kw):
        return uf('acommutator', args[0])
    R.lib_models['numpy.allclose'] = m_allclose
    R.lib_models['numpy.linalg.eig'] = m_eig
    R.lib_models['numpy.linalg.eigh'] = m_eigh
    R.lib_models['numpy.identity'] = m_identity
    R.models['bath._row_degeneracy'] = m_row_deg
    R.models['operators.commutator'] = m_comm
    R.models['operators.acommutator'] = m_acomm
    R.model_bases['Corr'] = ['BaseCorrelations']

    def stmt_hook(ip, st, frame):
        import ast
        if isinstance(st, ast.Assert):
            ip.ghost['last_assert'] = ast.unparse(st.test)
    R.stmt_hook = stmt_hook
    return R


def scen_bath(ip, repo):
    O = Vc('coupling_operator')
    ip.assume(O != NONE)
    self_ = mkobj(repo, 'bath.Bath')
    return {'args': [self_, O, Obj('Corr', {})], 'self': self_, 'O': O, 'inputs': {}}


def post_bath(ip, ctx, out):
    O = ctx['O']
    A = uf('np_array', O)
    herm = AllClose(TrT(Conj(A)), A)          # the code's own Hermiticity test on the converted input
    if out.raised('AssertionError'):
        last = ip.ghost.get('last_assert', '')
        if '_unitary' in last:
            # the internal reconstruction check failed although the input passed the Hermiticity test
            ip.prove('bath/accepts-all-hermitian', z3.BoolVal(False), {'failed_assertion': last, 'eigensolver': ip.ghost.get('eigensolver')})
        else:
            ip.prove('path-accounted', z3.BoolVal(True))      # non-matrix / non-square / non-Hermitian input rejected
        return
    if not expect_no_other_exception(ip, out):
        return
    o = ctx['self']
    U, D = o.fields['_unitary'], o.fields['_coupling_operator']
    ip.prove('bath/unitary', IsUnitary(U))
    # the diagonal of a Hermitian matrix is real (axiom instance), eigenvalues of eigh are real
    ip.add_pc(z3.Implies(herm, IsReal(A)) if False else z3.BoolVal(True))
    diag_branch = D == A
    if D.eq(A):
        # the shortcut "the operator is already diagonal" was taken: its condition must be that the operator equals the
        # diagonal matrix of its own diagonal (anything weaker lets a non-diagonal operator through undiagonalised)
        ip.prove('bath/diagonal-shortcut-only-for-diagonal-operators', AllClose(uf('lib_numpy_diag', uf('meth_diagonal', A)), A))
    ip.prove('bath/real-spectrum', z3.Or(IsReal(D), diag_branch))
    ip.prove('bath/reconstruct', z3.Or(AllClose(A, MatMul(MatMul(U, D), TrT(Conj(U)))), diag_branch))


def scen_bath_h(ip, repo):
    ctx = scen_bath(ip, repo)
    A = uf('np_array', ctx['O'])
    ip.ghost['hermitian_input'] = A
    return ctx


def stmt_hook_factory():
    return None


def rp(ob):
    return {'func': 'bath_eigensystem', 'inputs': {'obligation': ob['name']}}


# ---- PT-TEMPO: the process tensor is handed the basis change of the SAME unitary as TEMPO uses, in the same direction
class PtRotationTarget:
    """PtTempo._init_simple_process_tensor / _init_file_process_tensor on a free unitary symbol U (tnnorm).  Required:
    the state entering the input leg is taken to the bath's eigenbasis,  transform_in^T = L(U^+, U)  with  L(A,B) vec(rho) =
    vec(A rho B), i.e. transform_in[(c,d),(a,b)] = conj(U)[c,a] U[d,b];  the output leg brings it back,
    transform_out[(c,d),(a,b)] = U[a,c] conj(U)[b,d].  (get_mpo_tensor contracts the legs with transform_in^T / transform_out:
    C03 pt/transform.)"""

    def __init__(self, which, prop=None, replay=None):
        self.which = which
        self.qualname = 'pt_tempo.PtTempo._init_%s_process_tensor' % which
        self.name = 'wire/pt-basis-rotation[%s]' % which
        self.prop = prop or PROP
        self._replay = replay

    def replay(self, ob):
        if self._replay:
            return self._replay(ob)
        return {'func': 'basis_covariance_pt', 'inputs': {'obligation': ob['name']}}

    def run(self, timeout_ms, tier):
        import time
        from pyvc import tnnorm
        from pyvc.tnnorm import TArr, equal, new_label
        from pyvc.interp import Interp
        from pyvc.modules import Repo, describe
        from pyvc import values as Vv
        t0 = time.time()
        repo = Repo()
        res = {'target': self.name, 'function': self.qualname, 'property': self.prop, 'paths': 0, 'obligations': [], 'undecided': [], 'errors': [],
               'flags': ['FREE_TENSOR_SYMBOLS'], 'lib_pure': [], 'lib_used': ['numpy.kron / .T / .conjugate() (einsum terms)']}
        fref = repo.resolve(self.qualname)
        if fref is None:
            res['undecided'].append('contract target missing: %s' % self.qualname)
            return res
        res['function_info'] = describe(fref)
        R = Registry()
        tnnorm.install(R)

        @model
        def m_allclose(ip, args, kw):
            return ip.choose('unitary-is-identity')

        @model
        def m_pt(ip, args, kw):
            ip.ghost['pt_kwargs'] = kw
            return Obj('PTM', {})
        R.lib_models['numpy.allclose'] = m_allclose
        R.models['process_tensor.SimpleProcessTensor'] = m_pt
        R.models['process_tensor.FileProcessTensor'] = m_pt
        work = [[]]
        while work:
            prefix = work.pop()
            Vv.reset_fresh()
            ip = Interp(repo, R, prefix, solver_timeout_ms=timeout_ms)
            try:
                bath = Obj('BathM', {'unitary_transform': TArr.sym('U', 2)})
                o = mkobj(repo, 'pt_tempo.PtTempo', _bath=bath, _dimension=tnnorm.TDim('d'), _parameters=Obj('ParamsM', {'dt': Real('dt')}),
                          name=None, description=None, _process_tensor=None)
                args = [o] if self.which == 'simple' else [o, '<filename>', False]
                ip.call(fref, args, {})
                kw = ip.ghost.get('pt_kwargs', {})
                ident = any(t is True for t in ip.trace[:1]) if ip.trace else False
                tin, tout = kw.get('transform_in'), kw.get('transform_out')
                obs = []
                if tin is None and tout is None:
                    obs.append(('wire/pt-basis-rotation[identity: no transforms]', ident, {}))
                else:
                    a, b, c, d = [new_label() for _ in range(4)]
                    want_in = TArr([('U*', (c, a)), ('U', (d, b))], [('flat', c, d), ('flat', a, b)])
                    a, b, c, d = [new_label() for _ in range(4)]
                    want_out = TArr([('U', (a, c)), ('U*', (b, d))], [('flat', c, d), ('flat', a, b)])
                    obs.append(('wire/pt-basis-rotation[transform_in]', isinstance(tin, TArr) and equal(tin, want_in), {'computed': repr(tin), 'required': repr(want_in)}))
                    obs.append(('wire/pt-basis-rotation[transform_out]', isinstance(tout, TArr) and equal(tout, want_out), {'computed': repr(tout), 'required': repr(want_out)}))
                for nm, ok, info in obs:
                    res['obligations'].append({'name': nm, 'backend': 'tnnorm', 'flags': ['FREE_TENSOR_SYMBOLS'], 'info': info, 'model': info, 'pc_sat': 'sat',
                                               'result': 'discharged' if ok else 'refuted', 'seconds': 0.0})
                res['paths'] += 1
            except Unsupported as u:
                res['undecided'].append('unsupported construct: %s' % u)
            except PyRaise as pr:
                res['obligations'].append({'name': 'unexpected-exception/' + pr.exc.typ, 'backend': 'tnnorm', 'flags': [], 'info': {}, 'model': {}, 'pc_sat': 'sat',
                                           'result': 'refuted', 'seconds': 0.0})
            except Vv.Infeasible:
                pass
            work.extend(ip.new_forks)
        res['seconds'] = round(time.time() - t0, 3)
        return res


def rotation_targets(prop, replay):
    """both back ends take the system into the eigenbasis of the coupling operator with the same unitary, in the same direction"""
    from . import c01
    T = []

    def post_rot(ip, ctx, out):
        before = len(ip.obligations)
        c01.post_init(ip, ctx, out)
        for ob in ip.obligations[before:]:
            ob['name'] = ob['name'].replace('tempo/init-labels', 'wire/basis-rotation[TEMPO dk=0 tensor]')
    RI = c01.init_registry()
    for dg in (False, True):
        T.append(Target('wire/basis-rotation[degeneracy_maps=%s]' % dg, 'backends.tempo_backend.BaseTempoBackend.initialize_mps_mpo',
                        c01.scen_init(False, dg), post_rot, RI, prop, replay=replay))
    T.append(PtRotationTarget('simple', prop, replay))
    T.append(PtRotationTarget('file', prop, replay))
    return T


def targets(tier='quick'):
    R = c05_registry()
    T = [Target('bath/diagonalisation', 'bath.Bath.__init__', scen_bath_h, post_bath, R, PROP, replay=rp)]
    # TEMPO rotates the dk=0 influence tensor with the U (x) U* superoperators of the bath's transform,
    # with and without degeneracy reduction (wire/basis-rotation)
    from . import c01

    def post_rot(ip, ctx, out):
        before = len(ip.obligations)
        c01.post_init(ip, ctx, out)
        for ob in ip.obligations[before:]:
            ob['name'] = ob['name'].replace('tempo/init-labels', 'wire/basis-rotation[TEMPO dk=0 tensor]')
    RI = c01.init_registry()
    for dg in (False, True):
        T.append(Target('wire/basis-rotation[degeneracy_maps=%s]' % dg, 'backends.tempo_backend.BaseTempoBackend.initialize_mps_mpo',
                        c01.scen_init(False, dg), post_rot, RI, PROP, replay=lambda ob: {'func': 'basis_covariance', 'inputs': {}}))
    T.append(PtRotationTarget('simple'))
    T.append(PtRotationTarget('file'))
    from . import wire
    T.append(wire.OperatorsTarget(PROP))      # what left_right_super & co. mean (the rotation contracts use them)
    # the transform that reaches the back ends IS the bath's (not its conjugate / inverse): hand-over contracts
    from . import prep
    T += prep.targets(PROP, lambda ob: {'func': 'basis_covariance', 'inputs': {'obligation': ob['name']}})
    return T


META = {'level': 'proof', 'explanation': '', 'trusted_base': [], 'clauses': []}
