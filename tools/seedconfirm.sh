#!/bin/bash
# usage: tools/seedconfirm.sh <seed id> [pytest args...]
# confirms a seeded change independently of its author, in a scratch worktree of /repo (removed afterwards):
#   demo passes without the change, fails with it, and the given tests (default: tests/coverage) pass with it.
id=$1; shift
tests=${@:-tests/coverage}
W=$(mktemp -d /tmp/seedconf.XXXXXX); rmdir $W
git -C /repo worktree add --detach $W HEAD >/dev/null 2>&1 || { echo "no worktree"; exit 9; }
cd $W
PYTHONPATH=$W timeout 600 /venv/bin/python /verif/seeded/$id/demo.py >/dev/null 2>&1; echo "seed=$id demo without change: rc=$?"
git apply /verif/seeded/$id/patch.diff || { echo "patch does not apply"; git -C /repo worktree remove --force $W; exit 9; }
PYTHONPATH=$W timeout 600 /venv/bin/python /verif/seeded/$id/demo.py >/dev/null 2>&1; echo "seed=$id demo with change: rc=$?"
PYTHONPATH=$W /venv/bin/python -c "import oqupy,sys; sys.exit(0 if oqupy.__file__.startswith('$W') else 1)" || echo "WRONG oqupy imported"
PYTHONPATH=$W /venv/bin/python -m pytest -q -p no:cacheprovider --timeout=900 $tests 2>&1 | tail -3
cd /; git -C /repo worktree remove --force $W
