#!/bin/bash
# run every registered check (quick by default) and print one line each; refreshes evidence/
cd /verif
TIER=${1:-quick}
for id in $(python3 -c "import json;print(' '.join(c['property_id'] for c in json.load(open('MANIFEST.json'))['checks']))"); do
  out=$(./check $id --tier $TIER 2>&1); rc=$?
  echo "$id rc=$rc $(echo "$out" | grep -c '^VIOLATION') violations; $(echo "$out" | grep '^SUMMARY' | cut -c1-200)"
  echo "$out" | grep '^KNOWN-FINDING\|^VIOLATION\|^UNDECIDED\|^CHECKER' | cut -c1-200 | head -5
done
python3-vt - <<'PY'
import json,jsonschema,glob
sch=json.load(open('/root/.vp/EVIDENCE.schema.json'))
for f in sorted(glob.glob('/verif/evidence/*.json')):
    e=json.load(open(f))
    try:
        jsonschema.validate(e,sch)
        c=e['coverage']
        ok = e['level']!='proof' or c['obligations']==c['discharged']
        print(f.split('/')[-1], 'valid', e['level'], c['obligations'], c['discharged'], '' if ok else 'PROOF-LEVEL MISMATCH')
    except Exception as ex:
        print(f, 'INVALID', str(ex)[:200])
jsonschema.validate(json.load(open('/verif/MANIFEST.json')),json.load(open('/root/.vp/MANIFEST.schema.json')))
print('manifest valid')
PY
