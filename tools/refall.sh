#!/bin/bash
# runs every behaviour-preserving patch under /verif/refactors/ against the checks whose contracts touch the patched files
# (scratch copies; /repo is not touched).  A VIOLATION line here is a false alarm.
cd /verif
for f in refactors/*/refactor_*.diff; do
  tools/refpatch.sh $f 2>&1 | sed "s|^|$(basename $(dirname $f))/|"
done | tee /tmp/refall.txt | grep -v "rc=0 0 violations"
echo "patches x checks passed: $(grep -c 'rc=0 0 violations' /tmp/refall.txt); undecided: $(grep -c 'rc=2 0 violations' /tmp/refall.txt); false alarms: $(grep -c '^.*VIOLATION' /tmp/refall.txt); checker errors: $(grep -c 'rc=3' /tmp/refall.txt)"
