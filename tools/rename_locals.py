"""usage: rename_locals.py <file> <function> old=new [old=new ...]   (scratch copies only)
renames local variables (ast.Name nodes and function parameters are left alone unless listed) inside one function"""
import ast, sys
path, func = sys.argv[1], sys.argv[2]
m = dict(a.split('=') for a in sys.argv[3:])
src = open(path).read()
tree = ast.parse(src)
done = 0
for node in ast.walk(tree):
    if isinstance(node, (ast.FunctionDef,)) and node.name == func:
        for n in ast.walk(node):
            if isinstance(n, ast.Name) and n.id in m:
                n.id = m[n.id]
                done += 1
open(path, 'w').write(ast.unparse(tree))
print('renamed %d occurrences' % done)
