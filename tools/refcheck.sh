#!/bin/bash
# usage: tools/refcheck.sh <file under oqupy/> <sed-script> <checks...>
# applies a (behaviour-preserving) refactoring given as a sed script to a scratch copy of /repo/oqupy and runs the checks against it
# with PYVC_REPO; expected outcome: rc=0 for every check (an alarm on a refactoring is a false alarm).  Development aid.
D=$(mktemp -d /tmp/ref.XXXXXX)
mkdir -p $D/oqupy && cp -r /repo/oqupy/. $D/oqupy/
sed -i -E "$2" "$D/oqupy/$1"
diff -q /repo/oqupy/$1 $D/oqupy/$1 > /dev/null && echo "sed script changed nothing"
PYTHONPATH=$D /venv/bin/python -c "import oqupy" || echo "DOES NOT IMPORT"
f=$1; shift 2
for p in "$@"; do
  out=$(cd /verif && PYVC_REPO=$D ./check $p 2>&1); rc=$?
  echo "refactor of $f: check=$p rc=$rc $(echo "$out" | grep '^SUMMARY' | cut -c20-150)"
  echo "$out" | grep '^VIOLATION\|^UNDECIDED\|^CHECKER' | head -3 | cut -c1-220
done
rm -rf $D
