#!/bin/bash
# usage: tools/mutcheck.sh <file under oqupy/> <python-regex-old> <new> <check args...>
# applies one textual mutation on a scratch copy of /repo/oqupy (outside /repo and /verif), runs ./check against it
# with PYVC_REPO, removes the copy.  Development aid (engine self-test), not a registered check.
set -e
D=$(mktemp -d /tmp/mut.XXXXXX)
mkdir -p $D/oqupy && cp -r /repo/oqupy/. $D/oqupy/
python3 - "$D/oqupy/$1" "$2" "$3" <<'PY'
import sys,re
p,old,new=sys.argv[1:4]
s=open(p).read()
assert old in s, 'pattern not found'
open(p,'w').write(s.replace(old,new,1))
PY
shift 3
cd /verif && PYVC_REPO=$D ./check "$@" | grep -v "^UNDECIDED\|per_ob" | cut -c1-220 || true
rm -rf $D
