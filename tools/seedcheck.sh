#!/bin/bash
# usage: tools/seedcheck.sh <seed id> <property checks...>
# applies /verif/seeded/<id>/patch.diff to /repo, runs the given checks, and undoes the change straight afterwards
id=$1; shift
cd /repo && git apply /verif/seeded/$id/patch.diff || exit 9
cd /verif
for p in "$@"; do
  out=$(PYVC_EVIDENCE_DIR=/tmp/pyvc_seed_evidence ./check $p 2>&1); rc=$?
  echo "seed=$id check=$p rc=$rc $(echo "$out" | grep -c '^VIOLATION') violation lines, $(echo "$out" | grep '^VIOLATION' | grep -vc 'no-failing-input-found') replay-confirmed; $(echo "$out" | grep '^SUMMARY' | cut -c1-160)"
  echo "$out" | grep '^VIOLATION\|^UNDECIDED\|^CHECKER' | cut -c1-230 | head -4
done
git -C /repo checkout -- . ; git -C /repo status --short | head -3
