#!/bin/bash
# runs every seeded change against the checks recorded in its meta.json (caught_by.checks); /repo is restored after each
cd /verif
for d in seeded/*/; do
  id=$(basename $d)
  checks=$(python3 -c "import json;print(' '.join(json.load(open('$d/meta.json')).get('caught_by',{}).get('checks',[])))")
  [ -z "$checks" ] && { echo "seed=$id no caught_by"; continue; }
  tools/seedcheck.sh $id $checks 2>&1 | grep "^seed=" | cut -c1-110
done
git -C /repo status --short | head -3
