#!/bin/bash
# usage: tools/refcheck2.sh <file under oqupy/> <function> "old=new ..." <checks...>   (AST-level local renames on a scratch copy)
D=$(mktemp -d /tmp/ref.XXXXXX)
mkdir -p $D/oqupy && cp -r /repo/oqupy/. $D/oqupy/
python3 /verif/tools/rename_locals.py "$D/oqupy/$1" "$2" $3
PYTHONPATH=$D /venv/bin/python -c "import oqupy" || echo "DOES NOT IMPORT"
f="$1:$2"; shift 3
for p in "$@"; do
  out=$(cd /verif && PYVC_REPO=$D ./check $p 2>&1); rc=$?
  echo "rename in $f: check=$p rc=$rc $(echo "$out" | grep '^SUMMARY' | cut -c20-150)"
  echo "$out" | grep '^VIOLATION\|^UNDECIDED\|^CHECKER' | head -3 | cut -c1-220
done
rm -rf $D
