#!/bin/bash
# usage: tools/seedscratch.sh <seed id> <checks...>
# like seedcheck.sh, but applies the seeded patch to a scratch copy of /repo/oqupy (PYVC_REPO) instead of /repo, so that it can
# run while other jobs read /repo.  (tools/seedcheck.sh / seedall.sh remain the reference: they apply the patch to /repo itself.)
id=$1; shift
D=$(mktemp -d /tmp/seedx.XXXXXX)
mkdir -p $D/oqupy && cp -r /repo/oqupy/. $D/oqupy/
(cd $D && patch -p1 -s < /verif/seeded/$id/patch.diff) || { echo "patch does not apply"; rm -rf $D; exit 9; }
cd /verif
for p in "$@"; do
  out=$(PYVC_REPO=$D ./check $p 2>&1); rc=$?
  echo "seed=$id check=$p rc=$rc $(echo "$out" | grep -c '^VIOLATION') violation lines, $(echo "$out" | grep '^VIOLATION' | grep -vc 'no-failing-input-found') replay-confirmed; $(echo "$out" | grep '^SUMMARY' | cut -c1-160)"
  echo "$out" | grep '^VIOLATION\|^UNDECIDED\|^CHECKER' | sed "s|$D/_pyvc_replays/||" | cut -c1-230 | head -4
done
rm -rf $D
