#!/bin/bash
# usage: tools/refpatch.sh <patch file> [checks...]
# applies a (behaviour-preserving) patch to a scratch copy of /repo/oqupy and runs the checks whose contracts touch the patched
# files (from evidence/*.json), or the given checks.  Expected: no VIOLATION line (rc 0, or 2 = undecided).
P=$(readlink -f "$1"); shift
D=$(mktemp -d /tmp/ref.XXXXXX)
mkdir -p $D/oqupy && cp -r /repo/oqupy/. $D/oqupy/
(cd $D && patch -p1 -s < "$P") || { echo "patch does not apply"; rm -rf $D; exit 9; }
PYTHONPATH=$D /venv/bin/python -c "import oqupy" || echo "DOES NOT IMPORT"
if [ $# -eq 0 ]; then
  set -- $(python3 - "$P" <<'PY'
import json,glob,sys,re
files=set(re.findall(r'^\+\+\+ b/(\S+)', open(sys.argv[1]).read(), re.M))
out=[]
for e in sorted(glob.glob('/verif/evidence/C*.json')):
    d=json.load(open(e))
    fs={f['file'] for f in d['coverage'].get('functions_under_contract',[])}
    if fs & files: out.append(d['property_id'])
print(' '.join(out))
PY
)
fi
for p in "$@"; do
  out=$(cd /verif && PYVC_REPO=$D ./check $p 2>&1); rc=$?
  echo "$(basename $P): check=$p rc=$rc $(echo "$out" | grep -c '^VIOLATION') violations $(echo "$out" | grep '^SUMMARY' | sed 's/.*obligations=/obligations=/' | cut -c1-90)"
  echo "$out" | grep '^VIOLATION\|^CHECKER' | head -3 | cut -c1-230
  echo "$out" | grep '^UNDECIDED' | head -2 | cut -c1-200
done
rm -rf $D
