"""C09 (boundary value of the parameters): no process tensor corresponds to a
TEMPO / mean-field TEMPO run with dkmax = 0 (equivalently tcut < dt/2).

TempoParameters accepts dkmax=0 ('must be non-negative'); Tempo and
MeanFieldTempo run with it. PtTempo with the same parameters dies in the
back end with an unrelated tensor network ValueError, so mean-field TEMPO and
compute_dynamics_with_field cannot be compared for these parameters.
"""
import sys
import warnings
import numpy as np
import oqupy

warnings.filterwarnings("ignore")
sz = oqupy.operators.sigma("z")
sm = oqupy.operators.sigma("-")
dt, n = 0.1, 5
corr = oqupy.PowerLawSD(alpha=0.2, zeta=1, cutoff=3.0,
                        cutoff_type='exponential', temperature=0.5)
bath = oqupy.Bath(0.5*sz, corr)
rho0 = np.array([[0.6, 0.2-0.1j], [0.2+0.1j, 0.4]])
a0 = 0.3+0.2j
system = oqupy.TimeDependentSystemWithField(
    lambda t, a: 0.5*sz + 0.5*(a*sm.conj().T + np.conj(a)*sm))
mfs = oqupy.MeanFieldSystem(
    [system], lambda t, states, a: -1j*a - 0.5j*np.trace(sm @ states[0]))

bad = False
for kwargs in [dict(dkmax=0), dict(tcut=0.04)]:
    pars = oqupy.TempoParameters(dt=dt, epsrel=1e-8, **kwargs)
    ref = oqupy.MeanFieldTempo(mfs, [bath], pars, [rho0], a0).compute(
        n*dt, progress_type='silent')      # works
    try:
        pt = oqupy.pt_tempo_compute(bath=bath, start_time=0.0, end_time=n*dt,
                                    parameters=pars, progress_type='silent')
        dyn = oqupy.compute_dynamics_with_field(
            mfs, a0, [pt], initial_state_list=[rho0], progress_type='silent')
        dev = max(np.abs(dyn.fields-ref.fields).max(),
                  np.abs(dyn.system_dynamics[0].states
                         - ref.system_dynamics[0].states).max())
        if dev > 1e-6:
            bad = True
            print(kwargs, "methods disagree by", dev)
    except Exception as e: # pylint: disable=broad-except
        bad = True
        print(f"{kwargs} (dkmax={pars.dkmax}): MeanFieldTempo runs, but "
              f"pt_tempo_compute raises {type(e).__name__}: {str(e)[:120]}")
sys.exit(1 if bad else 0)
