"""C15: the time-dependent system classes evaluate the user's callables at the
absolute time t = 1.0 when they are constructed.

TimeDependentSystem.__init__ (dimension = hamiltonian(1.0).shape[0], and the
input checks of hamiltonian, gammas, lindblad_operators), the same in
TimeDependentSystemWithField and MeanFieldSystem (field_eom(1.0, ...)).
A time dependence that is only defined on the time window of the computation
(e.g. an interpolated pulse, scipy's interp1d raises outside its grid) is
therefore accepted or rejected depending on where the window lies relative to
t = 1.0: translating start time and time dependence together turns a working
computation into an AssertionError.
"""
import sys
import warnings
import numpy as np
from scipy.interpolate import interp1d
import oqupy

warnings.filterwarnings("ignore")
sx, sz = oqupy.operators.sigma("x"), oqupy.operators.sigma("z")
dt, n = 0.1, 5
corr = oqupy.PowerLawSD(alpha=0.2, zeta=1, cutoff=3.0,
                        cutoff_type='exponential', temperature=0.5)
bath = oqupy.Bath(0.5*sz, corr)
pars = oqupy.TempoParameters(dt=dt, epsrel=1e-8, dkmax=3)
rho0 = np.array([[0.6, 0.2-0.1j], [0.2+0.1j, 0.4]])

def run(tau):
    """the same problem with the time origin shifted by tau"""
    start = 0.0 + tau
    grid = np.linspace(start, start + n*dt, 21)
    pulse = interp1d(grid, np.sin(3*(grid - tau)))  # defined on the window only
    system = oqupy.TimeDependentSystem(
        lambda t: 0.5*sz + 0.5*float(pulse(t))*sx)
    dyn = oqupy.Tempo(system, bath, pars, rho0, start).compute(
        start + n*dt, progress_type='silent')
    return dyn.times - tau, dyn.states

ref_times, ref_states = run(0.6)     # window [0.6, 1.1] contains t = 1.0
bad = False
for tau in [0.0, 5.0, -2.0]:
    try:
        times, states = run(tau)
        if np.abs(times-ref_times).max() > 1e-9 \
                or np.abs(states-ref_states).max() > 1e-9:
            bad = True
            print(f"tau={tau}: results differ")
    except Exception as e: # pylint: disable=broad-except
        bad = True
        print(f"shift tau={tau}: {type(e).__name__}: {e}  <- caused by "
              f"{e.__cause__!r}")
if bad:
    print("(the run with the window [0.6, 1.1], which contains t=1.0, works)")
sys.exit(1 if bad else 0)
