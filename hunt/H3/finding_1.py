"""C08: state_gradient / compute_gradient_and_dynamics ignore the cap tensors of
the process tensors in the backward pass.

The forward pass terminates the PT-MPO bond legs with `get_cap_tensor(num_steps)`,
the backward pass starts from the bare target with bond legs of dimension 1.
Hence every process tensor whose cap at the final step is not the trivial
vector [1.] cannot be differentiated:
  (a) an exact system+ancilla process tensor whose trace over the ancilla is
      stored (as the API intends) in the cap tensors,
  (b) a PT-TEMPO process tensor used for fewer steps than its length
      (compute_gradient_and_dynamics(num_steps=...)).
Both are fine for compute_dynamics and for the forward part.
"""
import sys
import warnings
import numpy as np
from scipy.linalg import expm
import oqupy
from oqupy.process_tensor import SimpleProcessTensor

warnings.filterwarnings("ignore")
sx, sz = oqupy.operators.sigma("x"), oqupy.operators.sigma("z")
rng = np.random.default_rng(3)
dt, N, ds, da = 0.2, 3, 2, 2

def rand_herm(d):
    a = rng.normal(size=(d, d)) + 1j*rng.normal(size=(d, d))
    return (a + a.conj().T)/2

# -- exact process tensor of an ancilla qubit coupled to the system ----------
U = expm(-1j*rand_herm(ds*da)*dt)
S = np.kron(U, U.conj()).reshape(ds, da, ds, da, ds, da, ds, da)
# legs: [bond in (ancilla), bond out (ancilla), system in, system out]
T = S.transpose(5, 7, 1, 3, 4, 6, 0, 2).reshape(da**2, da**2, ds**2, ds**2)
rho_anc = np.array([[0.8, 0.1j], [-0.1j, 0.2]]).reshape(-1)
trace_anc = np.eye(da).reshape(-1)

def ancilla_pt(closed):
    pt = SimpleProcessTensor(ds, dt=dt)
    for s in range(N):
        ten = T
        if s == 0:
            ten = np.tensordot(rho_anc, ten, axes=([0], [0]))[None, ...]
        if closed and s == N-1:   # trace absorbed in the last MPO tensor
            ten = np.tensordot(ten, trace_anc, axes=([1], [0]))[:, None, :, :]
        pt.set_mpo_tensor(s, ten)
    pt.set_cap_tensor(0, np.array([1.0]))
    for s in range(1, N+1):
        pt.set_cap_tensor(s, trace_anc)
    if closed:
        pt.set_cap_tensor(N, np.array([1.0]))
    return pt

pt_caps = ancilla_pt(closed=False)   # trace over the ancilla lives in the caps
pt_closed = ancilla_pt(closed=True)  # same map, final bond dimension 1

system = oqupy.ParameterizedSystem(lambda x, y: 0.5*x*sx + 0.5*y*sz)
params = rng.normal(size=(2*N, 2))
rho0 = np.array([[0.7, 0.2-0.1j], [0.2+0.1j, 0.3]])
target = np.array([[0.3, 0.1+0.3j], [0.1-0.3j, 0.7]])

def forward(pt, p, num_steps=N):
    """independent forward propagation"""
    cur = rho0.reshape(-1).astype(complex)[None, :]
    for s in range(num_steps):
        u1 = expm(system.liouvillian(*p[2*s])*dt/2)
        u2 = expm(system.liouvillian(*p[2*s+1])*dt/2)
        cur = cur @ u1.T
        cur = np.einsum('bi,bcio->co', cur, pt.get_mpo_tensor(s))
        cur = cur @ u2.T
    return pt.get_cap_tensor(num_steps) @ cur

def fd_gradient(pt, num_steps=N):
    grad = np.zeros((2*num_steps, 2), dtype=complex)
    h = 1e-6
    for i in range(2*num_steps):
        for j in range(2):
            p, m = params.copy(), params.copy()
            p[i, j] += h
            m[i, j] -= h
            grad[i, j] = (target.reshape(-1) @ forward(pt, p, num_steps)
                          - target.reshape(-1) @ forward(pt, m, num_steps))/(2*h)
    return grad

bad = False

# sanity: both process tensors describe the same dynamics
assert np.allclose(forward(pt_caps, params), forward(pt_closed, params))
ref = oqupy.state_gradient(system=system, initial_state=rho0,
                           target_derivative=target,
                           process_tensors=[pt_closed], parameters=params,
                           progress_type='silent')
assert np.allclose(ref['gradient'], fd_gradient(pt_closed), atol=1e-7)

# (a) trace of the ancilla kept in the cap tensor
try:
    res = oqupy.state_gradient(system=system, initial_state=rho0,
                               target_derivative=target,
                               process_tensors=[pt_caps], parameters=params,
                               progress_type='silent')
    err = np.abs(res['gradient'] - fd_gradient(pt_caps)).max()
    if err > 1e-6:
        bad = True
        print(f"(a) gradient for ancilla PT with cap tensors is wrong by {err}")
except Exception as e: # pylint: disable=broad-except
    bad = True
    print("(a) state_gradient fails for an exact ancilla process tensor whose "
          "final cap is the ancilla trace (compute_dynamics handles it):\n   ",
          type(e).__name__, str(e)[:160])

# (b) PT-TEMPO process tensor of 5 steps, gradient over the first 3 steps
corr = oqupy.PowerLawSD(alpha=0.3, zeta=1, cutoff=3.0,
                        cutoff_type='exponential', temperature=1.0)
pt5 = oqupy.pt_tempo_compute(
    bath=oqupy.Bath(0.5*sz, corr), start_time=0.0, end_time=5*dt,
    parameters=oqupy.TempoParameters(dt=dt, epsrel=1e-7, dkmax=4),
    progress_type='silent')
try:
    gradprop, dyn = oqupy.gradient.compute_gradient_and_dynamics(
        system=system, initial_state=rho0, target_derivative=target,
        process_tensors=[pt5], parameters=params, num_steps=3,
        progress_type='silent')
    gradprop = [g.tensor if hasattr(g, 'tensor') else g for g in gradprop]
    grad = oqupy.gradient._chain_rule(
        gradprop, system.get_propagator_derivatives(dt, params),
        system.get_propagators(dt, params), 3, 2, 'silent')
    err = np.abs(grad - fd_gradient(pt5, 3)).max()
    if err > 1e-6:
        bad = True
        print(f"(b) gradient over 3 of 5 steps is wrong by {err}")
except Exception as e: # pylint: disable=broad-except
    bad = True
    print("(b) compute_gradient_and_dynamics(num_steps=3) fails for a PT-TEMPO "
          "process tensor of length 5:\n   ", type(e).__name__, str(e)[:160])

# (c) final bond dimension 1, but the cap carries a factor: silently wrong
pt_scaled = ancilla_pt(closed=True)
pt_scaled.set_mpo_tensor(N-1, pt_scaled.get_mpo_tensor(N-1)/2.0)
pt_scaled.set_cap_tensor(N, np.array([2.0]))
assert np.allclose(forward(pt_scaled, params), forward(pt_closed, params))
res = oqupy.state_gradient(system=system, initial_state=rho0,
                           target_derivative=target,
                           process_tensors=[pt_scaled], parameters=params,
                           progress_type='silent')
assert np.allclose(res['final_state'], ref['final_state'])
err = np.abs(res['gradient'] - ref['gradient']).max()
if err > 1e-6:
    bad = True
    print("(c) same dynamics, final cap [2.] instead of [1.]: the gradient is "
          f"silently off by {err} (ratio "
          f"{(res['gradient'][0,0]/ref['gradient'][0,0]).real:.3f})")

sys.exit(1 if bad else 0)
