"""C09: a MeanFieldTempo step is not atomic.

MeanFieldTempoBackend.compute_step first advances the TEMPO networks of all
systems (compute_system_step) and only afterwards calls the user's field
equation of motion (Heun step, _compute_field). If that call raises, the
networks stay advanced while step counter, states and field are not updated.
Continuing the computation afterwards (MeanFieldTempo.compute is documented to
'continue to propagate') re-applies the step to the already advanced networks:
the run completes without any error but states and field differ from an
undisturbed run and from compute_dynamics_with_field.
"""
import sys
import warnings
import numpy as np
import oqupy

warnings.filterwarnings("ignore")
sz = oqupy.operators.sigma("z")
sm = oqupy.operators.sigma("-")
dt, n = 0.1, 6
corr = oqupy.PowerLawSD(alpha=0.2, zeta=1, cutoff=3.0,
                        cutoff_type='exponential', temperature=0.5)
bath = oqupy.Bath(0.5*sz, corr)
pars = oqupy.TempoParameters(dt=dt, epsrel=1e-8, dkmax=3)
rho0 = np.array([[0.6, 0.2-0.1j], [0.2+0.1j, 0.4]])
a0 = 0.3+0.2j
system = oqupy.TimeDependentSystemWithField(
    lambda t, a: 0.5*sz + 0.5*(a*sm.conj().T + np.conj(a)*sm))

data_available_until = {'t': np.inf}
def field_eom(t, states, a):
    # e.g. a drive that is read from a table which is still incomplete
    if t > data_available_until['t']:
        raise RuntimeError(f"no drive data for t={t}")
    return -1j*0.4*a - 0.2*a - 0.5j*np.trace(sm @ states[0])
mfs = oqupy.MeanFieldSystem([system], field_eom)

# reference: undisturbed run (agrees with compute_dynamics_with_field)
ref = oqupy.MeanFieldTempo(mfs, [bath], pars, [rho0], a0).compute(
    n*dt, progress_type='silent')
pt = oqupy.pt_tempo_compute(bath=bath, start_time=0.0, end_time=n*dt,
                            parameters=pars, progress_type='silent')
ref2 = oqupy.compute_dynamics_with_field(
    mfs, a0, [pt], initial_state_list=[rho0], progress_type='silent')
assert np.abs(ref.fields - ref2.fields).max() < 1e-6

# history: the field e.o.m. fails once, the user repairs it and continues
mft = oqupy.MeanFieldTempo(mfs, [bath], pars, [rho0], a0)
data_available_until['t'] = 0.35
try:
    mft.compute(n*dt, progress_type='silent')
    raise SystemExit("unexpected: no failure")
except RuntimeError:
    pass
data_available_until['t'] = np.inf
dyn = mft.compute(n*dt, progress_type='silent')   # continue

ok = True
if len(dyn.times) != len(ref.times) or np.abs(dyn.times-ref.times).max() > 1e-12:
    ok = False
    print("times differ:", dyn.times, ref.times)
else:
    dev_s = np.abs(dyn.system_dynamics[0].states
                   - ref.system_dynamics[0].states).max(axis=(1, 2))
    dev_f = np.abs(dyn.fields - ref.fields)
    if dev_s.max() > 1e-6 or dev_f.max() > 1e-6:
        ok = False
        print("MeanFieldTempo continued after a failed step returns different "
              "results (no error raised):")
        print("  times             ", dyn.times)
        print("  state deviation   ", np.round(dev_s, 6))
        print("  field deviation   ", np.round(dev_f, 6))
sys.exit(0 if ok else 1)
