"""C09: compute_dynamics_with_field cannot do zero steps.

num_steps=0 (the state and field at the start time only) is accepted by
compute_dynamics (returns the initial state at start_time) and the same request
to MeanFieldTempo (compute(end_time=start_time)) returns the initial states and
the initial field. compute_dynamics_with_field raises UnboundLocalError
instead, for both record_all settings.
"""
import sys
import warnings
import numpy as np
import oqupy

warnings.filterwarnings("ignore")
sz = oqupy.operators.sigma("z")
sm = oqupy.operators.sigma("-")
dt, start = 0.1, 0.3
corr = oqupy.PowerLawSD(alpha=0.2, zeta=1, cutoff=3.0,
                        cutoff_type='exponential', temperature=0.5)
bath = oqupy.Bath(0.5*sz, corr)
pars = oqupy.TempoParameters(dt=dt, epsrel=1e-8, dkmax=3)
rho0 = np.array([[0.6, 0.2-0.1j], [0.2+0.1j, 0.4]])
a0 = 0.3+0.2j
system = oqupy.TimeDependentSystemWithField(
    lambda t, a: 0.5*sz + 0.5*(a*sm.conj().T + np.conj(a)*sm))
mfs = oqupy.MeanFieldSystem(
    [system], lambda t, states, a: -1j*a - 0.5j*np.trace(sm @ states[0]))
pt = oqupy.pt_tempo_compute(bath=bath, start_time=start, end_time=start+4*dt,
                            parameters=pars, progress_type='silent')

ref = oqupy.MeanFieldTempo(mfs, [bath], pars, [rho0], a0,
                           start_time=start).compute(start,
                                                     progress_type='silent')
assert list(ref.times) == [start] and ref.fields[0] == a0
plain = oqupy.compute_dynamics(
    oqupy.System(0.5*sz), initial_state=rho0, process_tensor=pt,
    start_time=start, num_steps=0, progress_type='silent')
assert list(plain.times) == [start]

bad = False
for record_all in [True, False]:
    try:
        dyn = oqupy.compute_dynamics_with_field(
            mfs, a0, [pt], initial_state_list=[rho0], start_time=start,
            num_steps=0, record_all=record_all, progress_type='silent')
        if list(dyn.times) != [start] or abs(dyn.fields[0]-a0) > 1e-12 \
                or np.abs(dyn.system_dynamics[0].states[0]-rho0).max() > 1e-6:
            bad = True
            print("wrong result for num_steps=0:", dyn.times, dyn.fields)
    except Exception as e: # pylint: disable=broad-except
        bad = True
        print(f"compute_dynamics_with_field(num_steps=0, record_all={record_all})"
              f" raises {type(e).__name__}: {e}")
sys.exit(1 if bad else 0)
