"""C01 (finite-mode clause): TEMPO itself deviates from the explicitly simulated
system-plus-mode evolution by ~1e7 x epsrel and returns grossly unphysical
"density matrices" (entries of order 10) for a single hot, strongly coupled
harmonic mode; PT-TEMPO + compute_dynamics returns zeros for the same input.

Bath: one mode, omega=1, coupling g=1.2, temperature T=5, specified through its
autocorrelation function C(t) = g^2 [coth(omega/2T) cos(omega t) - i sin(omega t)].
System: H_S = 0.5 sigma_x, coupling operator sigma_z, initial state |up><up|,
dt = 0.2, 14 steps, full memory, epsrel = 1e-6.
Reference: exact evolution of system x mode (220 Fock states) with the same
symmetric splitting  exp(-i H_S dt/2) exp(-i (H_B+H_I) dt) exp(-i H_S dt/2).
"""
import sys
import warnings
import numpy as np
import scipy.linalg as sl
import oqupy

warnings.simplefilter("ignore")

omega, g, temp, nmax = 1.0, 1.2, 5.0, 220
dt, num_steps, epsrel = 0.2, 14, 1.0e-6
sz = oqupy.operators.sigma("z")
sx = oqupy.operators.sigma("x")
h_sys = 0.5*sx
rho0 = oqupy.operators.spin_dm("up")

# -- exact reference ---------------------------------------------------------
a = np.diag(np.sqrt(np.arange(1, nmax)), 1)
p = np.exp(-omega*np.arange(nmax)/temp)
p /= p.sum()
h_tot = np.kron(sz, g*(a+a.T)) + np.kron(np.eye(2), omega*a.T@a)
u_sb = sl.expm(-1j*h_tot*dt)
u_s = np.kron(sl.expm(-1j*h_sys*dt/2), np.eye(nmax))
u_step = u_s @ u_sb @ u_s
rho = np.kron(rho0, np.diag(p))
ref = []
for n in range(num_steps+1):
    ref.append(np.trace(rho.reshape(2, nmax, 2, nmax), axis1=1, axis2=3))
    rho = u_step @ rho @ u_step.conj().T
ref = np.array(ref)

# -- library -----------------------------------------------------------------
coth = 1.0/np.tanh(omega/(2*temp))
corr = oqupy.CustomCorrelations(
    lambda t: g**2*(coth*np.cos(omega*t) - 1j*np.sin(omega*t)))
bath = oqupy.Bath(sz, corr)
system = oqupy.System(h_sys)
params = oqupy.TempoParameters(dt=dt, epsrel=epsrel)
dyn = oqupy.Tempo(system, bath, params, rho0, 0.0).compute(
    num_steps*dt, progress_type="silent")
pt = oqupy.PtTempo(bath, 0.0, num_steps*dt, params).get_process_tensor(
    progress_type="silent")
dyn_pt = oqupy.compute_dynamics(system, rho0, process_tensor=pt,
                                progress_type="silent")

err = np.abs(dyn.states - ref).max(axis=(1, 2))
err_pt = np.abs(dyn_pt.states - ref).max()
print(f"epsrel = {epsrel:g}")
print("TEMPO |rho - exact| per step:", np.array2string(err, precision=2))
print("exact  rho(t_end):\n", ref[-1])
print("TEMPO  rho(t_end):\n", dyn.states[-1])
print(f"PT-TEMPO max |rho - exact| = {err_pt:.2e}, trace of its t=0 state = "
      f"{np.trace(dyn_pt.states[0]).real:.2e}")
if err.max() > 1.0e3*epsrel:
    print(f"VIOLATION: TEMPO deviates from the explicitly simulated "
          f"system-plus-mode evolution by {err.max():.2e} = "
          f"{err.max()/epsrel:.1e} x epsrel.")
    sys.exit(1)
sys.exit(0)
