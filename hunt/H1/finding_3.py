"""C02: TEMPO and PT-TEMPO + compute_dynamics do NOT give the same dynamics,
and the disagreement does not tighten with the tolerance: for a sub-ohmic bath
at moderately high temperature PT-TEMPO returns (numerically) zero matrices at
every time step - including t = start_time - for epsrel = 1e-4 ... 1e-8, while
TEMPO is converged to ~1e-5.

Bath: PowerLawSD(alpha=0.1, zeta=0.5, cutoff=5, 'exponential', T=5), coupling
sigma_z; system H = 0.5 sigma_x (non-commuting); initial state |up><up|;
dt = 0.2, 14 steps, full memory.
"""
import sys
import warnings
import numpy as np
import oqupy

warnings.simplefilter("ignore")

sz = oqupy.operators.sigma("z")
sx = oqupy.operators.sigma("x")
corr = oqupy.PowerLawSD(alpha=0.1, zeta=0.5, cutoff=5.0,
                        cutoff_type="exponential", temperature=5.0)
bath = oqupy.Bath(sz, corr)
system = oqupy.System(0.5*sx)
rho0 = oqupy.operators.spin_dm("up")
dt, num_steps = 0.2, 14

def tempo(epsrel):
    par = oqupy.TempoParameters(dt=dt, epsrel=epsrel)
    return oqupy.Tempo(system, bath, par, rho0, 0.0).compute(
        num_steps*dt, progress_type="silent").states

def pt_tempo(epsrel):
    par = oqupy.TempoParameters(dt=dt, epsrel=epsrel)
    pt = oqupy.PtTempo(bath, 0.0, num_steps*dt, par).get_process_tensor(
        progress_type="silent")
    return oqupy.compute_dynamics(system, rho0, process_tensor=pt,
                                  progress_type="silent").states

bad = False
t_ref = tempo(1.0e-8)
for epsrel in [1.0e-4, 1.0e-6, 1.0e-8]:
    t = tempo(epsrel) if epsrel != 1.0e-8 else t_ref
    p = pt_tempo(epsrel)
    diff = np.abs(t - p).max()
    print(f"epsrel={epsrel:g}: |TEMPO - TEMPO(1e-8)| = "
          f"{np.abs(t - t_ref).max():.1e};  |TEMPO - PT-TEMPO| = {diff:.2e};"
          f"  trace of PT-TEMPO state at t=0: {np.trace(p[0]).real:.2e}")
    if diff > 1.0e3*epsrel:
        bad = True
if bad:
    print("VIOLATION: PT-TEMPO + compute_dynamics disagrees with TEMPO by "
          "O(1) (it returns ~0 for all states, even the initial one) and the "
          "disagreement does not tighten when epsrel is tightened.")
    sys.exit(1)
sys.exit(0)
