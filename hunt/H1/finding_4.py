"""C06: switching on the degeneracy reduction (unique=True) changes the TEMPO
result by O(10) - far more than the requested tolerance - for a single hot,
strongly coupled mode (same input as finding_2). Both runs use epsrel = 1e-6;
they agree to 1e-14 for the first steps and then drift apart exponentially.
"""
import sys
import warnings
import numpy as np
import oqupy

warnings.simplefilter("ignore")
omega, g, temp = 1.0, 1.2, 5.0
dt, num_steps, epsrel = 0.2, 14, 1.0e-6
sz = oqupy.operators.sigma("z")
sx = oqupy.operators.sigma("x")
coth = 1.0/np.tanh(omega/(2*temp))
corr = oqupy.CustomCorrelations(
    lambda t: g**2*(coth*np.cos(omega*t) - 1j*np.sin(omega*t)))
bath = oqupy.Bath(sz, corr)
system = oqupy.System(0.5*sx)
rho0 = oqupy.operators.spin_dm("up")
par = oqupy.TempoParameters(dt=dt, epsrel=epsrel)
res = {}
for unique in [False, True]:
    res[unique] = oqupy.Tempo(system, bath, par, rho0, 0.0, unique=unique) \
        .compute(num_steps*dt, progress_type="silent").states
diff = np.abs(res[True] - res[False]).max(axis=(1, 2))
print("max |rho_unique - rho_not_unique| per step:")
print(np.array2string(diff, precision=2))
print("unique=False, last state:\n", res[False][-1])
print("unique=True,  last state:\n", res[True][-1])
if diff.max() > 1.0e3*epsrel:
    print(f"VIOLATION: unique=True changes the states by {diff.max():.2e} "
          f"(= {diff.max()/epsrel:.1e} x epsrel).")
    sys.exit(1)
sys.exit(0)
