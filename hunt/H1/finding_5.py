"""C02 (boundary of the quantifier): a memory cut-off of zero steps is accepted
by TempoParameters (dkmax=0 "must be non-negative"; also reached by the legal
tcut=0.04 with dt=0.1, which is rounded to dkmax=0). TEMPO then runs (Markovian
limit), but PT-TEMPO with the same parameters crashes with an internal
tensornetwork ValueError, so the two methods cannot give the same dynamics.
With add_correlation_time set as well, both crash with IndexError.
"""
import sys
import warnings
import numpy as np
import oqupy

warnings.simplefilter("ignore")
corr = oqupy.PowerLawSD(alpha=0.1, zeta=1, cutoff=3.0,
                        cutoff_type="exponential", temperature=0.5)
bath = oqupy.Bath(oqupy.operators.sigma("x"), corr)
system = oqupy.System(0.5*oqupy.operators.sigma("z"))
rho0 = oqupy.operators.spin_dm("y+")
dt, num_steps = 0.1, 5
bad = False
for kwargs in [dict(tcut=0.04), dict(dkmax=0),
               dict(dkmax=0, add_correlation_time=0.2)]:
    par = oqupy.TempoParameters(dt=dt, epsrel=1e-8, **kwargs)
    out = {}
    for name in ["TEMPO", "PT-TEMPO"]:
        try:
            if name == "TEMPO":
                out[name] = oqupy.Tempo(system, bath, par, rho0, 0.0).compute(
                    num_steps*dt, progress_type="silent").states
            else:
                pt = oqupy.PtTempo(bath, 0.0, num_steps*dt, par) \
                    .get_process_tensor(progress_type="silent")
                out[name] = oqupy.compute_dynamics(
                    system, rho0, process_tensor=pt,
                    progress_type="silent").states
            print(kwargs, f"(dkmax={par.dkmax})", name, "ok")
        except Exception as e: # pylint: disable=broad-except
            out[name] = e
            print(kwargs, f"(dkmax={par.dkmax})", name, "raised", repr(e)[:150])
    excs = [isinstance(v, Exception) for v in out.values()]
    if any(excs):
        bad = True
    elif np.abs(out["TEMPO"] - out["PT-TEMPO"]).max() > 1e-6:
        bad = True
if bad:
    print("VIOLATION: parameters accepted by TempoParameters make PT-TEMPO "
          "(and with add_correlation_time also TEMPO) crash with an internal "
          "error instead of giving the TEMPO result.")
    sys.exit(1)
sys.exit(0)
