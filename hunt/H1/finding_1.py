"""C01 (and C02): PT-TEMPO + compute_dynamics returns (numerically) ZERO density
matrices for an exactly solvable pure-dephasing model, although TEMPO with the
same parameters reproduces the analytic solution to better than epsrel.

Model: H_S = 0.4 sigma_z, coupling operator sigma_z (commuting), sub-ohmic bath
alpha=0.1, zeta=0.5, omega_c=5 (exponential cutoff), T=5, dt=0.2, 20 steps,
full memory, epsrel=1e-6, initial state |x+><x+|.
Analytic: populations 1/2, coherence 0.5*exp(-i*0.8*t)*exp(-4*Re eta(t)).
"""
import sys
import warnings
import numpy as np
from scipy import integrate
import oqupy

warnings.simplefilter("ignore")

alpha, zeta, wc, temp = 0.1, 0.5, 5.0, 5.0
dt, num_steps, epsrel = 0.2, 20, 1.0e-6
sz = oqupy.operators.sigma("z")

def re_eta(t):
    """Re int_0^t dt' int_0^t' dt'' C(t'-t'')"""
    f = lambda w: 2*alpha*w**zeta*wc**(1-zeta)*np.exp(-w/wc) / w**2 \
        / np.tanh(w/(2*temp)) * (1-np.cos(w*t))
    kw = dict(limit=1000, epsabs=1e-13, epsrel=1e-11)
    return integrate.quad(f, 0, 30, **kw)[0] + integrate.quad(f, 30, 300, **kw)[0]

ref = []
for n in range(num_steps+1):
    t = n*dt
    c = 0.5*np.exp(-1j*0.8*t - (4*re_eta(t) if n else 0.0))
    ref.append(np.array([[0.5, c], [np.conj(c), 0.5]]))
ref = np.array(ref)

corr = oqupy.PowerLawSD(alpha=alpha, zeta=zeta, cutoff=wc,
                        cutoff_type="exponential", temperature=temp)
bath = oqupy.Bath(sz, corr)
system = oqupy.System(0.4*sz)
rho0 = oqupy.operators.spin_dm("x+")
params = oqupy.TempoParameters(dt=dt, epsrel=epsrel)

dyn_tempo = oqupy.Tempo(system, bath, params, rho0, 0.0).compute(
    num_steps*dt, progress_type="silent")
pt = oqupy.PtTempo(bath, 0.0, num_steps*dt, params).get_process_tensor(
    progress_type="silent")
dyn_pt = oqupy.compute_dynamics(system, rho0, process_tensor=pt,
                                progress_type="silent")

err_tempo = np.abs(dyn_tempo.states - ref).max()
err_pt = np.abs(dyn_pt.states - ref).max()
trace0 = np.trace(dyn_pt.states[0]).real
print(f"epsrel = {epsrel:g}")
print(f"TEMPO    max |rho - analytic| = {err_tempo:.2e}")
print(f"PT-TEMPO max |rho - analytic| = {err_pt:.2e}")
print(f"PT-TEMPO trace of the state returned for t=0 : {trace0:.3e} (must be 1)")
print("PT-TEMPO state at t=0:\n", dyn_pt.states[0], "\ninitial state:\n", rho0)

if err_pt > 1.0e3*epsrel:
    print("VIOLATION: PT-TEMPO + compute_dynamics deviates from the exact "
          f"independent-boson solution by {err_pt:.2e} = {err_pt/epsrel:.1e} x "
          "epsrel (TEMPO with the same parameters is accurate to "
          f"{err_tempo:.1e}); even the state at t=0 is not the initial state.")
    sys.exit(1)
sys.exit(0)
