"""C20: a PtTebd object follows later changes of the PtTebdParameters object
it was built from, and does so inconsistently.

PtTebdParameters has public setters (dt, order, epsrel).  PtTebd keeps a
reference to the caller's object: the propagators are built from the values at
initialize() time, but PtTebd.time() reads parameters.dt live.  Changing
parameters.dt (e.g. to re-use the parameter object for another computation)
  (a) before the first compute() changes the physics of the PtTebd object that
      was built earlier, and
  (b) after some steps makes the recorded time stamps wrong: the propagation
      continues with the old step length, the times jump to step*new_dt.
  (c) The SystemChain is kept by reference as well and only evaluated at the
      first step.
"""
import sys
import numpy as np
import oqupy
from oqupy import operators as op

sx, sz = op.sigma('x'), op.sigma('z')

def make(parameters):
    chain = oqupy.SystemChain([2, 2])
    chain.add_site_hamiltonian(0, 0.3 * sx)
    chain.add_site_hamiltonian(1, 0.3 * sx)
    chain.add_nn_hamiltonian(0, 0.4 * sz, sz)
    mps = oqupy.AugmentedMPS([op.spin_dm('z+'), op.spin_dm('x+')])
    return oqupy.PtTebd(mps, chain, [None, None], parameters,
                        dynamics_sites=[0])

# reference: untouched parameters
ref = make(oqupy.PtTebdParameters(dt=0.1, order=2, epsrel=1e-8)) \
    .compute(6, progress_type='silent')
ref_times = np.array(ref['time'])
ref_states = ref['dynamics'][0].states

bad = False

# (b) change of the shared parameter object half way
par = oqupy.PtTebdParameters(dt=0.1, order=2, epsrel=1e-8)
tebd = make(par)
tebd.compute(3, progress_type='silent')
par.dt = 0.3            # caller re-uses `par` for something else
res = tebd.compute(6, progress_type='silent')
times = np.array(res['time'])
states = res['dynamics'][0].states
if not np.allclose(times, ref_times):
    same_states = np.allclose(states, ref_states, atol=1e-9)
    print("VIOLATION (C20): PtTebd built with dt=0.1 reports times", times,
          "instead of", ref_times, "after the caller changed parameters.dt; "
          f"states still those of dt=0.1 propagation: {same_states}")
    bad = True

# (a) change before the first compute()
par = oqupy.PtTebdParameters(dt=0.1, order=2, epsrel=1e-8)
tebd = make(par)
par.dt = 0.3
res = tebd.compute(6, progress_type='silent')
dev = np.abs(res['dynamics'][0].states - ref_states).max()
if dev > 1e-6:
    print("VIOLATION (C20): PtTebd object built earlier with dt=0.1 computes "
          f"with the later value dt=0.3 (state deviation {dev:.3g}, times "
          f"{np.array(res['time'])})")
    bad = True

# (c) the same holds for the SystemChain: terms added to the caller's chain
#     after the PtTebd object was built (but before its first step) are used
par = oqupy.PtTebdParameters(dt=0.1, order=2, epsrel=1e-8)
chain = oqupy.SystemChain([2, 2])
chain.add_site_hamiltonian(0, 0.3 * sx)
chain.add_site_hamiltonian(1, 0.3 * sx)
chain.add_nn_hamiltonian(0, 0.4 * sz, sz)
mps = oqupy.AugmentedMPS([op.spin_dm('z+'), op.spin_dm('x+')])
tebd = oqupy.PtTebd(mps, chain, [None, None], par, dynamics_sites=[0])
chain.add_site_hamiltonian(0, 2.0 * sz)   # caller goes on to build chain no. 2
res = tebd.compute(6, progress_type='silent')
dev = np.abs(res['dynamics'][0].states - ref_states).max()
if dev > 1e-6:
    print("VIOLATION (C20): PtTebd object built earlier is affected by terms "
          f"added to the SystemChain afterwards (state deviation {dev:.3g})")
    bad = True
sys.exit(1 if bad else 0)
