"""C16: get_mpo_tensor(step, transformed=False) of an imported file-backed
process tensor differs from the original (and from the 'simple' import).

SimpleProcessTensor.get_mpo_tensor expands rank-3 tensors to rank 4 before
looking at `transformed`; FileProcessTensor.get_mpo_tensor only expands inside
`if transformed:`.  For every PT-TEMPO process tensor (rank-3 MPO tensors) the
public getter therefore returns tensors of different rank after
export -> import('file').  Also `transformed=None` means "transformed" for the
in-memory object and "untransformed" for the file object, and negative steps
raise IndexError / give None in memory but wrap around in the file object.
"""
import sys
import os
import tempfile
import numpy as np
import oqupy
from oqupy import operators as op

tmpdir = tempfile.mkdtemp()
corr = oqupy.PowerLawSD(alpha=0.2, zeta=1, cutoff=3.0, temperature=0.3)
params = oqupy.TempoParameters(dt=0.1, dkmax=3, epsrel=1e-7)
bath = oqupy.Bath(0.3 * op.sigma('x') + 0.4 * op.sigma('z'), corr)  # non-diag
pt = oqupy.pt_tempo_compute(bath, 0.0, 0.5, params, progress_type='silent')
fname = os.path.join(tmpdir, "pt.hdf5")
pt.export(fname)
pt_file = oqupy.import_process_tensor(fname, 'file')
pt_simple = oqupy.import_process_tensor(fname, 'simple')

bad = False
for step in range(len(pt)):
    a = pt.get_mpo_tensor(step, transformed=False)
    s = pt_simple.get_mpo_tensor(step, transformed=False)
    f = pt_file.get_mpo_tensor(step, transformed=False)
    if a.shape != s.shape or not np.array_equal(a, s):
        print("simple import differs at step", step); bad = True
    if a.shape != f.shape or not np.array_equal(a, f):
        print(f"VIOLATION (C16): step {step}: get_mpo_tensor(step, "
              f"transformed=False) has shape {a.shape} for the original / "
              f"simple import but {f.shape} for the file import")
        bad = True
        break

a = pt.get_mpo_tensor(1, None)
f = pt_file.get_mpo_tensor(1, None)
if a.shape != f.shape or not np.array_equal(a, f):
    print(f"VIOLATION (C16): get_mpo_tensor(1, transformed=None): original "
          f"{a.shape} (transformed), file import {f.shape} (untransformed)")
    bad = True

def call(obj, name, step):
    try:
        r = getattr(obj, name)(step)
        return None if r is None else r.shape
    except IndexError:
        return 'IndexError'
for name in ('get_mpo_tensor', 'get_cap_tensor'):
    o, f = call(pt, name, -1), call(pt_file, name, -1)
    if o != f:
        print(f"VIOLATION (C16): {name}(-1): original -> {o}, file import "
              f"-> {f} (silently wraps around)")
        bad = True
pt_file.close()
sys.exit(1 if bad else 0)
