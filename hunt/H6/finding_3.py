"""C20: copy.deepcopy of a PowerLawSD stays tied to the original object.

PowerLawSD builds its j_function as a lambda that closes over `self`.
__copy__ was added so that copy.copy() creates an independent object, but
copy.deepcopy() treats the function as atomic: the deep copy's j_function
still reads alpha/zeta/cutoff of the ORIGINAL.  Updating the original changes
the copy, and updating the copy's own alpha has no effect on its methods.
"""
import sys
import copy
import numpy as np
import oqupy

orig = oqupy.PowerLawSD(alpha=0.1, zeta=1.0, cutoff=2.0, temperature=0.0)
dup = copy.deepcopy(orig)

def expected(alpha, w=1.0, zeta=1.0, wc=2.0):
    return 2.0 * alpha * w**zeta * wc**(1 - zeta) * np.exp(-w / wc)

bad = False
sd0 = dup.spectral_density(1.0)
c0 = dup.correlation(0.3)

orig.alpha = 0.7                      # update of the original only
sd1 = dup.spectral_density(1.0)
c1 = dup.correlation(0.3)
if not np.isclose(sd1, sd0) or not np.isclose(c1, c0):
    print("VIOLATION (C20): deep copy (alpha=%g) changed when the original's "
          "alpha was set to 0.7: spectral_density(1.0) %g -> %g, "
          "correlation(0.3) %s -> %s" % (dup.alpha, sd0, sd1, c0, c1))
    bad = True

dup.alpha = 0.2                       # update of the copy
sd2 = dup.spectral_density(1.0)
if not np.isclose(sd2, expected(0.2)):
    print("VIOLATION (C20): deep copy with alpha=0.2 answers "
          "spectral_density(1.0)=%g, current value requires %g"
          % (sd2, expected(0.2)))
    bad = True

# a Bath built from the deep copy follows the original as well
bath = oqupy.Bath(0.5 * oqupy.operators.sigma('z'), copy.deepcopy(orig))
b0 = bath.correlations.correlation(0.3)
orig.alpha = 0.05
b1 = bath.correlations.correlation(0.3)
if not np.isclose(b0, b1):
    print("VIOLATION (C20): Bath built earlier (from a deep copy) changed its "
          "correlation(0.3) %s -> %s when the original correlations object "
          "was updated" % (b0, b1))
    bad = True
sys.exit(1 if bad else 0)
