"""C20: System.liouvillian() hands out the memoised array itself.

System.liouvillian is wrapped in functools.lru_cache and returns the cached
ndarray (writable).  Any in-place use of the returned array by the caller
(e.g. ``L = system.liouvillian(); L += extra``) silently changes the system for
all later computations, although System has no public setter and its
`hamiltonian` property returns a copy.
"""
import sys
import numpy as np
import oqupy
from oqupy import operators as op

rho0 = op.spin_dm('z+')
hamiltonian = 0.5 * op.sigma('x')

def dynamics(system):
    return oqupy.compute_dynamics(
        system, rho0, dt=0.1, num_steps=5, progress_type='silent').states

system = oqupy.System(hamiltonian)
before = dynamics(system)

# the caller builds "his own" Liouvillian from the returned array
liou = system.liouvillian()
liou *= 0.0

after = dynamics(system)
fresh = dynamics(oqupy.System(hamiltonian))      # equal, freshly built object

bad = False
if not np.allclose(before, fresh, atol=1e-12):
    print("unexpected: fresh system differs from first run")
    bad = True
dev = np.abs(after - fresh).max()
if dev > 1e-10:
    print("VIOLATION (C20): modifying the array returned by "
          "System.liouvillian() changed the system itself; dynamics of the "
          "re-used System differ from those of a freshly built equal System "
          f"by {dev:.3g} (hamiltonian property unchanged: "
          f"{np.array_equal(system.hamiltonian, hamiltonian)})")
    bad = True

# related: the `lindblad_operators` property returns a shallow copy of the
# list, i.e. the internal (writable) arrays; and the memoised Liouvillian then
# no longer agrees with what the object reports about itself
sm = op.sigma('-')
sys2 = oqupy.System(hamiltonian, gammas=[0.2], lindblad_operators=[sm])
liou_cached = sys2.liouvillian().copy()
sys2.lindblad_operators[0][...] = 0.0
reported = sys2.lindblad_operators[0]
rebuilt = oqupy.System(sys2.hamiltonian, sys2.gammas, sys2.lindblad_operators)
if not np.array_equal(reported, sm):
    print("VIOLATION (C20): writing into system.lindblad_operators[0] changed "
          "the System's internal operator")
    bad = True
    if not np.allclose(sys2.liouvillian(), rebuilt.liouvillian()):
        print("VIOLATION (C20): ... and liouvillian() (memoised) is "
              "inconsistent with the operators the System now reports")
sys.exit(1 if bad else 0)
