"""C20: Control.add_single stores the caller's array by reference.

The first control operation added for a time step is stored as the very array
object the caller passed.  If the caller re-uses / overwrites that buffer
afterwards (typical when building several controls in a loop), the Control
object -- and every later computation with it -- changes, i.e. the result does
not depend on the values at the time of the add_single() call.  (ChainControl
copies its arrays, Control does not.)
"""
import sys
import numpy as np
import oqupy
from oqupy import operators as op

sx, sz = op.sigma('x'), op.sigma('z')
rho0 = op.spin_dm('z+')
system = oqupy.System(0.5 * sz)

def run(control):
    return oqupy.compute_dynamics(system, rho0, dt=0.1, num_steps=5,
                                  control=control,
                                  progress_type='silent').states

buffer = np.array(op.left_right_super(sx, sx))   # pi-flip
flip = buffer.copy()

control = oqupy.Control(2)
control.add_single(2, buffer)
control.add_single(1.0e-9 + 0.4, buffer.copy(), post=True)  # float-time entry
first = run(control)

buffer[:] = np.identity(4)      # caller re-uses his buffer for something else

second = run(control)

fresh = oqupy.Control(2)
fresh.add_single(2, flip)
fresh.add_single(1.0e-9 + 0.4, flip.copy(), post=True)
reference = run(fresh)

bad = False
if not np.allclose(first, reference, atol=1e-12):
    print("unexpected: first run differs from reference")
    bad = True
dev = np.abs(second - reference).max()
if dev > 1e-10:
    print("VIOLATION (C20): the Control object changed after add_single() "
          "because it aliases the caller's array; re-using it gives dynamics "
          f"that differ by {dev:.3g} from an equal freshly built Control")
    bad = True

# same pattern: ParameterizedSystem keeps the caller's gammas / lindblad lists
sm = op.sigma('-')
gammas = [lambda x: 0.1]
lindblads = [lambda x: sm]
psys = oqupy.ParameterizedSystem(lambda x: x * sx, gammas=gammas,
                                 lindblad_operators=lindblads)
liou_before = psys.liouvillian(0.5)
gammas[0] = lambda x: 5.0          # caller re-uses his list for the next system
liou_after = psys.liouvillian(0.5)
dev = np.abs(liou_before - liou_after).max()
if dev > 1e-12:
    print("VIOLATION (C20): ParameterizedSystem built earlier changed its "
          f"Liouvillian by {dev:.3g} when the caller modified the list he had "
          "passed as `gammas`")
    bad = True
sys.exit(1 if bad else 0)
