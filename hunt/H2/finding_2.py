"""C07: an empty time specification (empty slice / empty list) is handled for
the first operator but crashes for the last operator.

compute_correlations(..., times_a=[], times_b=slice(None)) returns an empty
(0 x M) array, but compute_correlations(..., times_a=slice(None), times_b=[])
(or an empty slice such as slice(2, 2)) raises
'ValueError: zero-size array to reduction operation maximum which has no
identity' instead of returning the (N x 0) array aligned with the returned
(empty) time axis.
"""
import sys
import numpy as np
import oqupy
from oqupy.process_tensor import SimpleProcessTensor

# trivial hand-built process tensor (bond dimension 1, identity channel)
n = 4
pt = SimpleProcessTensor(2, dt=0.1)
for k in range(n):
    pt.set_mpo_tensor(k, np.ones((1, 1, 4), dtype=complex))
pt.compute_caps()
system = oqupy.System(0.5 * oqupy.operators.sigma('x'))
rho0 = oqupy.operators.spin_dm('z+')
sz = oqupy.operators.sigma('z')

fail = False
for order in ['ordered', 'anti']:
    for empty in [[], slice(2, 2)]:
        for ta, tb in [(empty, slice(None)), (slice(None), empty)]:
            try:
                times, corr = oqupy.compute_correlations(
                    system, pt, sz, sz, ta, tb, time_order=order,
                    initial_state=rho0, progress_type='silent')
                ok = corr.shape == (len(times[0]), len(times[1]))
                if not ok:
                    fail = True
                    print(order, ta, tb, "misaligned shape", corr.shape)
            except Exception as e:
                fail = True
                print(f"time_order={order} times_a={ta} times_b={tb}: "
                      f"{type(e).__name__}: {e}")
if fail:
    print("VIOLATION (C07): empty time selection of the last operator raises "
          "instead of giving an empty, aligned result.")
    sys.exit(1)
print("no violation")
sys.exit(0)
