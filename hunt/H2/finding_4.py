"""C07: a time step `dt` passed to compute_correlations that differs from the
one stored in the process tensor does not govern anything: the function emits
the UserWarning "... Using specified `dt`." and then dies with
'ValueError: All process tensors must have the same timestep length.' raised
by compute_dynamics (to which the caller's dt is now forwarded).
"""
import sys
import warnings
import numpy as np
import oqupy
from oqupy.process_tensor import SimpleProcessTensor

n = 4
def make(dt):
    pt = SimpleProcessTensor(2, dt=dt)
    for k in range(n):
        pt.set_mpo_tensor(k, np.ones((1, 1, 4), dtype=complex))
    pt.compute_caps()
    return pt
system = oqupy.System(0.5 * oqupy.operators.sigma('x'))
rho0 = oqupy.operators.spin_dm('z+')
sz = oqupy.operators.sigma('z')

# reference: the same (time-translation invariant, dt-independent) tensors
# with dt = 0.2 stored / with no dt stored
t_ref, c_ref = oqupy.compute_correlations(
    system, make(None), sz, sz, slice(None), slice(None), dt=0.2,
    initial_state=rho0, progress_type='silent')

with warnings.catch_warnings(record=True) as w:
    warnings.simplefilter("always")
    try:
        t, c = oqupy.compute_correlations(
            system, make(0.1), sz, sz, slice(None), slice(None), dt=0.2,
            initial_state=rho0, progress_type='silent')
    except Exception as e:
        print("warnings issued:", [str(x.message)[:120] for x in w])
        print(f"then raised {type(e).__name__}: {e}")
        print("VIOLATION (C07): the caller's dt is announced to be used but "
              "the call fails.")
        sys.exit(1)
if not (np.allclose(t[0], t_ref[0]) and np.allclose(c, c_ref, equal_nan=True)):
    print("VIOLATION (C07): dt passed does not govern axes and dynamics")
    sys.exit(1)
print("no violation")
sys.exit(0)
