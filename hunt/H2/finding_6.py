"""C07: TwoTimeBathCorrelations.correlation returns 0 for every bath
correlation whose later time is exactly one time step (time_2 == dt).

The empty default `system_correlations` is np.array([[]]) of shape (1, 0), so
generate_system_correlations sees current_corr_dim == 1, dim_diff == 0 and
computes nothing; the (1, 0) array then broadcasts against the 1x1 kernel to an
empty sum.  The result is silently 0 instead of the displaced-oscillator value
(which occupation() does reproduce at the same time).
"""
import sys
import warnings
import numpy as np
import oqupy
warnings.simplefilter('ignore')

sz = oqupy.operators.sigma('z')
dt, nsteps, w = 0.1, 4, 1.3
corr = oqupy.PowerLawSD(alpha=0.1, zeta=1, cutoff=3.0,
                        cutoff_type='exponential', temperature=0.0)
bath = oqupy.Bath(0.5 * sz, corr)
system = oqupy.System(0.0 * sz)        # pure dephasing
rho0 = oqupy.operators.spin_dm('x+')
params = oqupy.TempoParameters(dt=dt, dkmax=None, epsrel=1e-9)
pt = oqupy.pt_tempo_compute(bath, 0.0, nsteps * dt, parameters=params,
                            progress_type='silent')

def closed_form(t):
    # change of <a^dagger a> of the mode at w for H = S sum_k g_k (a_k + h.c.)
    return corr.spectral_density(w) * 0.25 * 4 * np.sin(w * t / 2)**2 / w**2

fail = False
for k in [1, 2, 3]:
    bd = oqupy.TwoTimeBathCorrelations(system, bath, pt, initial_state=rho0)
    val = bd.correlation(w, k * dt, change_only=True,
                         interaction_picture=True, progress_type='silent')
    _, occ = bd.occupation(w, change_only=True, progress_type='silent')
    ex = closed_form(k * dt)
    ok = abs(val - ex) < 1e-6 * ex + 1e-9
    print(f"t={k}*dt: correlation()={val:.6e}  occupation()[{k}]={occ[k]:.6e}"
          f"  closed form={ex:.6e}  {'ok' if ok else 'WRONG'}")
    fail |= not ok
if fail:
    print("VIOLATION (C07): correlation(freq, time=dt) returns 0.")
    sys.exit(1)
print("no violation")
sys.exit(0)
