"""C07: a list that mixes integers and slices is a documented time
specification ("Indices may be integers, slices, or lists of integers and
slices"; type alias Indices = Union[int, slice, List[Union[int, slice]]]) but
compute_correlations / compute_correlations_nt reject it with
'IndexError: Specified times are invalid or out of bound.'
"""
import sys
import numpy as np
import oqupy
from oqupy.process_tensor import SimpleProcessTensor

n = 5
pt = SimpleProcessTensor(2, dt=0.1)
for k in range(n):
    pt.set_mpo_tensor(k, np.ones((1, 1, 4), dtype=complex))
pt.compute_caps()
system = oqupy.System(0.5 * oqupy.operators.sigma('x'))
rho0 = oqupy.operators.spin_dm('z+')
sz = oqupy.operators.sigma('z')

# the same selection written as a flat list of ints works
times_ref, corr_ref = oqupy.compute_correlations(
    system, pt, sz, sz, [0, 2, 3], slice(None),
    initial_state=rho0, progress_type='silent')

fail = False
for spec in ([0, slice(2, 4)], [slice(0, 1), slice(2, 4)], [slice(0, 1), 2, 3]):
    try:
        times, corr = oqupy.compute_correlations(
            system, pt, sz, sz, spec, slice(None),
            initial_state=rho0, progress_type='silent')
        if not (np.allclose(times[0], times_ref[0])
                and np.allclose(corr, corr_ref, equal_nan=True)):
            fail = True
            print(spec, "wrong result", times[0])
    except Exception as e:
        fail = True
        print(f"times_a={spec}: {type(e).__name__}: {e}")
if fail:
    print("VIOLATION (C07): documented list-of-ints-and-slices time "
          "specification is not accepted.")
    sys.exit(1)
print("no violation")
sys.exit(0)
