"""C07: TwoTimeBathCorrelations.occupation returns a time axis that is longer
than the occupation array for common (dt, number of steps) combinations.

tlist = np.arange(0, last_time + dt, dt) suffers from floating point rounding:
for dt = 0.1 and a process tensor of 2 (also 11, 12, 14, 23, ...) steps it has
N+2 instead of N+1 entries, while the occupations have N+1 entries, so the
returned arrays are not aligned (and cannot even be plotted against each
other).
"""
import sys
import warnings
import numpy as np
import oqupy
warnings.simplefilter('ignore')

sz = oqupy.operators.sigma('z')
corr = oqupy.PowerLawSD(alpha=0.1, zeta=1, cutoff=3.0,
                        cutoff_type='exponential', temperature=0.0)
bath = oqupy.Bath(0.5 * sz, corr)
system = oqupy.System(0.0 * sz)
rho0 = oqupy.operators.spin_dm('x+')

fail = False
for dt, nsteps in [(0.1, 2), (0.1, 12)]:
    params = oqupy.TempoParameters(dt=dt, dkmax=None, epsrel=1e-7)
    pt = oqupy.pt_tempo_compute(bath, 0.0, nsteps * dt, parameters=params,
                                progress_type='silent')
    assert len(pt) == nsteps
    bd = oqupy.TwoTimeBathCorrelations(system, bath, pt, initial_state=rho0)
    times, occ = bd.occupation(1.3, change_only=True, progress_type='silent')
    if len(times) != len(occ) or not np.allclose(
            times, np.arange(nsteps + 1) * dt):
        fail = True
        print(f"dt={dt}, {nsteps} steps: len(times)={len(times)} "
              f"(last {times[-1]:.3f}, process tensor ends at "
              f"{nsteps*dt:.3f}) but len(occupation)={len(occ)}")
if fail:
    print("VIOLATION (C07): occupation() time axis not aligned with values.")
    sys.exit(1)
print("no violation")
sys.exit(0)
