"""C03: SimpleProcessTensor/FileProcessTensor.compute_caps ignores the in/out
transforms for rank-3 (delta) MPO tensors.

A hand-built process tensor of a classical-memory Pauli-channel environment is
written once with rank-3 tensors in the Pauli basis (with transform_in /
transform_out mapping the system basis to the Pauli basis and back) and once as
the mathematically identical rank-4 tensors without transforms.  Both describe
the same trace-preserving environment, so compute_dynamics must give the same
(normalised) states.  With rank-3 tensors the caps are computed with
`trace_square` (which lives in the untransformed system basis) instead of
trace_in*trace_out, so the caps are wrong and every recorded state except the
last one is wrong (even the state at step 0 is not the initial state).
"""
import sys
import numpy as np
import oqupy
from oqupy.process_tensor import SimpleProcessTensor, FileProcessTensor

sig = oqupy.operators.sigma
P = [np.eye(2), sig('x'), sig('y'), sig('z')]
# rho_pt[k] = sum_i rho[i] tin[i,k]  with  rho_pt[k] = Tr(P_k rho)/sqrt(2)
tin = np.array([(p.T).reshape(4) / np.sqrt(2) for p in P]).T
# rho = sum_k rho_pt[k] P_k/sqrt(2)
tout = np.array([p.reshape(4) / np.sqrt(2) for p in P])
assert np.allclose(tin @ tout, np.eye(4))

n = 4
trans = np.array([[0.7, 0.3], [0.4, 0.6]])          # classical register c -> c'
lam = np.array([[1, 0.9, 0.5, 0.45], [1, 0.2, 0.2, 0.6]])  # Pauli channel per c
p0 = np.array([0.25, 0.75])
T = np.einsum('ab,ak->abk', trans, lam)               # rank-3: (bond, bond, k)

def build(cls, rank3):
    kw = dict(dt=0.1,
              transform_in=tin if rank3 else None,
              transform_out=tout if rank3 else None)
    if cls == "simple":
        pt = SimpleProcessTensor(2, **kw)
    else:
        pt = FileProcessTensor("write", hilbert_space_dimension=2, **kw)
    for k in range(n):
        t = T.copy()
        if k == 0:
            t = np.einsum('a,abk->bk', p0, t)[None]
        if k == n - 1:
            t = t.sum(axis=1)[:, None, :]
        if not rank3:
            t = np.einsum('abk,ik,ko->abio', t, tin, tout)
        pt.set_mpo_tensor(k, np.array(t, dtype=complex))
    pt.compute_caps()
    return pt

rng = np.random.default_rng(1)
z = rng.normal(size=(2, 2)) + 1j * rng.normal(size=(2, 2))
H = (z + z.conj().T) / 2
rho0 = np.array([[0.7, 0.2 - 0.1j], [0.2 + 0.1j, 0.3]])
system = oqupy.System(H)

fail = False
for cls in ["simple", "file"]:
    res = {}
    for rank3 in [True, False]:
        pt = build(cls, rank3)
        res[rank3] = oqupy.compute_dynamics(
            system, initial_state=rho0, process_tensor=pt,
            progress_type='silent').states
    dev = np.abs(res[True] - res[False]).max()
    tr = [np.trace(s).real for s in res[True]]
    dev0 = np.abs(res[True][0] - rho0).max()
    if dev > 1e-8:
        fail = True
        print(f"[{cls}] rank-3 tensors + transforms differ from the identical "
              f"rank-4 tensors: max dev {dev:.3g}; traces of the rank-3 "
              f"result {np.round(tr, 4)}; state at step 0 deviates from the "
              f"initial state by {dev0:.3g}")
if fail:
    print("VIOLATION (C03): compute_caps uses trace_square for rank-3 tensors "
          "and ignores transform_in/transform_out.")
    sys.exit(1)
print("no violation")
sys.exit(0)
