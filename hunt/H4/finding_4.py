"""C10 (recorded site subsets): PtTebd silently drops every entry of
`dynamics_sites` that is not exactly a Python int or tuple (e.g. numpy
integers from np.arange, or a site subset given as a list) -- no error, the
requested reduced density matrices are simply never recorded."""
import sys
import numpy as np
import oqupy

hs = [2, 2, 2]
chain = oqupy.SystemChain(hs)
for i in range(3):
    chain.add_site_hamiltonian(i, oqupy.operators.sigma("x"))
for i in range(2):
    chain.add_nn_hamiltonian(i, oqupy.operators.sigma("z"),
                             oqupy.operators.sigma("z"))
mps = oqupy.AugmentedMPS([oqupy.operators.spin_dm("z+")]*3)
par = oqupy.PtTebdParameters(dt=0.1, order=2, epsrel=1e-8)

requested = list(np.arange(3)) + [[0, 2]]      # numpy ints and a list subset
tebd = oqupy.PtTebd(mps, chain, [None]*3, par, dynamics_sites=requested)
res = tebd.compute(2, progress_type='silent')
recorded = list(res['dynamics'].keys())
print("requested dynamics_sites:", requested)
print("recorded  dynamics      :", recorded)
if len(recorded) != len(requested):
    print("VIOLATION: requested site subsets were silently ignored "
          "(no exception, nothing recorded)")
    sys.exit(1)
sys.exit(0)
