"""C18: controls added for the same time step do not act in the order in which
they were added when one is specified by int step and the other by float time:
Control.get_controls always applies float-time controls first for 'pre' and
int-step controls first for 'post'."""
import sys, io, contextlib
import numpy as np
import scipy.linalg as la
import oqupy
from oqupy import operators as opr

rng = np.random.default_rng(7)
def rand_herm(d):
    a = rng.normal(size=(d, d)) + 1j*rng.normal(size=(d, d))
    return (a + a.conj().T)/2
d, dt, N, K = 2, 0.1, 4, 2
H = rand_herm(d)
system = oqupy.System(H)
U = la.expm(-1j*H*dt)
P = opr.left_right_super(U, U.conj().T)
a = rand_herm(d); rho0 = a @ a.conj().T; rho0 /= np.trace(rho0)
def kick():
    u = la.expm(-1j*rand_herm(d))
    return opr.left_right_super(u, u.conj().T)
A, B = kick(), kick()          # two non-commuting unitary kicks

def reference(first, second, post):
    """first is added before second; both act at step K."""
    v = rho0.reshape(-1).astype(complex); out = []
    for k in range(N+1):
        if k == K and not post:
            v = second @ (first @ v)
        out.append(v.reshape(d, d).copy())
        if k == K and post:
            v = second @ (first @ v)
        v = P @ v
    return np.array(out)

def library(spec_first, spec_second, post):
    c = oqupy.Control(d)
    c.add_single(spec_first, A, post=post)     # added first
    c.add_single(spec_second, B, post=post)    # added second
    with contextlib.redirect_stdout(io.StringIO()):   # get_controls prints
        dyn = oqupy.compute_dynamics(system, initial_state=rho0, dt=dt,
                                     num_steps=N, control=c,
                                     progress_type='silent')
    return np.array(dyn.states)

bad = False
for post in (False, True):
    for s1, s2 in ((K, K*dt), (K*dt, K), (K, K), (K*dt, K*dt)):
        err = np.abs(library(s1, s2, post) - reference(A, B, post)).max()
        err_swapped = np.abs(library(s1, s2, post)
                             - reference(B, A, post)).max()
        tag = "ok" if err < 1e-10 else \
            ("WRONG ORDER (equals reversed order)" if err_swapped < 1e-10
             else "WRONG")
        print(f"post={post!s:5} first added at {s1!r:4} second added at "
              f"{s2!r:4}: deviation from added order {err:.2e}  {tag}")
        if err > 1e-8:
            bad = True
if bad:
    print("VIOLATION: controls for the same step are not applied in the "
          "order in which they were added (mixed int step / float time)")
    sys.exit(1)
sys.exit(0)
