"""C14/C18: a PT-TEBD computation restarted from its exported chain state and
step number applies the pre-measurement control of the restart step a second
time (PtTebd.initialize() always applies the 'pre' controls of start_step)."""
import sys
import numpy as np
import scipy.linalg as la
import oqupy
from oqupy import operators as opr

rng = np.random.default_rng(4)
def rand_herm(d):
    a = rng.normal(size=(d, d)) + 1j*rng.normal(size=(d, d))
    return (a + a.conj().T)/2
def rand_dm(d):
    a = rng.normal(size=(d, d)) + 1j*rng.normal(size=(d, d))
    r = a @ a.conj().T
    return r/np.trace(r)

dt, N, K = 0.1, 6, 3          # K = step of export / restart
hs = [2, 2, 2]
chain = oqupy.SystemChain(hs)
for i, d in enumerate(hs):
    chain.add_site_hamiltonian(i, rand_herm(d))
for i in range(len(hs)-1):
    chain.add_nn_hamiltonian(i, rand_herm(hs[i]), rand_herm(hs[i+1]))
rhos = [rand_dm(d) for d in hs]

u = la.expm(-1j*rand_herm(2))
kick = opr.left_right_super(u, u.conj().T)     # unitary (trace preserving)
control = oqupy.ChainControl(hs)
control.add_single_site_control(kick, site=1, step=K, post=False)

def make(mps, start_step, start_time):
    par = oqupy.PtTebdParameters(dt=dt, order=2, epsrel=1e-10)
    return oqupy.PtTebd(mps, chain, [None]*len(hs), par,
                        chain_control=control,
                        start_step=start_step, start_time=start_time,
                        dynamics_sites=[0, 1, 2])

# uninterrupted run
ref = make(oqupy.AugmentedMPS(rhos), 0, 0.0).compute(N, progress_type='silent')

# run to step K, export, restart from (state, step number)
first = make(oqupy.AugmentedMPS(rhos), 0, 0.0)
first.compute(K, progress_type='silent')
exported = first.get_augmented_mps()
second = make(exported, K, K*dt).compute(N, progress_type='silent')

bad = False
for site in range(3):
    a = np.array(ref['dynamics'][site].states)[K:]
    b = np.array(second['dynamics'][site].states)
    err = np.abs(a - b).max()
    print(f"site {site}: max |uninterrupted - restarted| = {err:.3e}")
    if err > 1e-6:
        bad = True
# show that the deviation is exactly a second application of the kick
a = np.array(ref['dynamics'][1].states)[K]
b = np.array(second['dynamics'][1].states)[0]
twice = (kick @ a.reshape(-1)).reshape(2, 2)
print("restarted state at step K == kick applied once more to the "
      "uninterrupted state:", np.allclose(b, twice, atol=1e-9))
if bad:
    print("VIOLATION: restart from exported state/step does not continue as "
          "the uninterrupted computation (pre-control of step K applied twice)")
    sys.exit(1)
sys.exit(0)
