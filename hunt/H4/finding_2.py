"""C14: MeanFieldTempo - a transient failure of the user's field equation
during the Runge-Kutta update of a step leaves the object such that the
repeated compute() call silently yields different dynamics."""
import sys
import numpy as np
import oqupy

sx = oqupy.operators.sigma("x")
sz = oqupy.operators.sigma("z")

class Transient(Exception):
    pass

def run(fail_at_call=None, dkmax=None):
    calls = {'n': 0, 'armed': False}
    def field_eom(t, states, field):
        if calls['armed']:
            calls['n'] += 1
            if calls['n'] == fail_at_call:
                raise Transient("transient failure of the field equation")
        return -0.1*field - 0.5j*np.matmul(sx, states[0]).trace().real
    system = oqupy.TimeDependentSystemWithField(
        lambda t, field: 0.5*sz + 0.6*sx*np.abs(field))
    mfs = oqupy.MeanFieldSystem([system], field_eom)
    corr = oqupy.PowerLawSD(alpha=0.1, zeta=1, cutoff=5.0,
                            cutoff_type='gaussian', temperature=0.1)
    bath = oqupy.Bath(0.5*sz, corr)
    par = oqupy.TempoParameters(dt=0.1, dkmax=dkmax, epsrel=1e-7)
    tempo = oqupy.MeanFieldTempo(
        mean_field_system=mfs, bath_list=[bath],
        initial_state_list=[oqupy.operators.spin_dm("z-")],
        initial_field=1.0+1.0j, start_time=0.0, parameters=par)
    calls['armed'] = True   # count only calls made during compute()
    failed = False
    try:
        tempo.compute(1.0, progress_type='silent')
    except Transient:
        failed = True
        tempo.compute(1.0, progress_type='silent')   # repeat the call
    d = tempo.get_dynamics()
    return (failed, np.array(d.times),
            np.array(d.system_dynamics[0].states), np.array(d.fields))

bad = False
for dkmax in (None, 3):
    _, t0, s0, f0 = run(None, dkmax)
    # each step calls field_eom 3 times: derivative, rk1, rk2
    for call in (4, 5, 6):
        try:
            failed, t1, s1, f1 = run(call, dkmax)
        except Exception as exc:   # failing again is allowed
            print(f"dkmax={dkmax} fail at call {call}: fails again ({exc!r})")
            continue
        assert failed
        same_len = len(t0) == len(t1)
        err_s = np.abs(s0-s1).max() if same_len else np.inf
        err_f = np.abs(f0-f1).max() if same_len else np.inf
        print(f"dkmax={dkmax} failure injected at field_eom call {call} "
              f"(step 2, {['derivative','rk1','rk2'][(call-1)%3]}): "
              f"max state deviation {err_s:.2e}, field deviation {err_f:.2e}")
        if err_s > 1e-5 or err_f > 1e-5:
            bad = True
if bad:
    print("VIOLATION: after a transient failure of field_eom the repeated "
          "compute() silently returns different dynamics")
    sys.exit(1)
sys.exit(0)
