"""C18: Control.add_single keeps a reference to the caller's array instead of
a copy.  A control added for step 1 therefore changes when the caller later
re-uses (overwrites) the buffer to build the control of another step -- the
control no longer is the superoperator that was added for that step.
ChainControl.add_single_site_control copies its argument, so single systems
and chains behave differently."""
import sys
import numpy as np
import scipy.linalg as la
import oqupy
from oqupy import operators as opr

rng = np.random.default_rng(14)
def rand_herm(d):
    a = rng.normal(size=(d, d)) + 1j*rng.normal(size=(d, d))
    return (a + a.conj().T)/2
def kick():
    u = la.expm(-1j*rand_herm(2))
    return opr.left_right_super(u, u.conj().T)
H = rand_herm(2)
system = oqupy.System(H)
a = rand_herm(2); rho0 = a @ a.conj().T; rho0 /= np.trace(rho0)
A, B = kick(), kick()

def dynamics(control):
    d = oqupy.compute_dynamics(system, initial_state=rho0, dt=0.1,
                               num_steps=4, control=control,
                               progress_type='silent')
    return np.array(d.states)

# reference: two independent arrays
ref = oqupy.Control(2)
ref.add_single(1, A.copy())
ref.add_single(3, B.copy())

# same controls, but the caller re-uses one work buffer
buf = np.empty_like(A)
ctrl = oqupy.Control(2)
buf[:] = A
ctrl.add_single(1, buf)      # control for step 1 is A at the time it is added
buf[:] = B
ctrl.add_single(3, buf)      # control for step 3 is B

err = np.abs(dynamics(ctrl) - dynamics(ref)).max()
print(f"single system: deviation after re-using the buffer: {err:.3e}")

# chains copy
chain_ctrl = oqupy.ChainControl([2, 2])
buf[:] = A
chain_ctrl.add_single_site_control(buf, site=0, step=1)
buf[:] = B
chain_err = np.abs(chain_ctrl.get_single_site_controls(1, False)[0] - A).max()
print(f"chain control: stored control deviates from the one added by "
      f"{chain_err:.3e}")

if err > 1e-8:
    print("VIOLATION: the control acting at step 1 is not the operation that "
          "was added for step 1 (Control stores the caller's array by "
          "reference)")
    sys.exit(1)
sys.exit(0)
