"""C13: compute_gradient_and_dynamics with the documented argument
num_steps smaller than the length of the process tensor raises an obscure
tensor-network ValueError (for record_all True and False) instead of
returning the dynamics on the grid start_time + k dt, k = 0..num_steps.
compute_dynamics accepts the same request."""
import sys, warnings
import numpy as np
import oqupy
warnings.filterwarnings("ignore")

sx = oqupy.operators.sigma("x"); sz = oqupy.operators.sigma("z")
up = oqupy.operators.spin_dm("z+"); dn = oqupy.operators.spin_dm("z-")
corr = oqupy.PowerLawSD(alpha=0.1, zeta=1, cutoff=3.0, cutoff_type='gaussian',
                        temperature=0.5)
bath = oqupy.Bath(0.5*sz, corr)
params = oqupy.TempoParameters(dt=0.1, dkmax=3, epsrel=1e-4)
pt = oqupy.PtTempo(bath, 1.0, 1.5, params).get_process_tensor(
    progress_type='silent')           # 5 steps
psys = oqupy.ParameterizedSystem(lambda x, z: 0.5*x*sx + 0.5*z*sz)
pars = 0.3*np.ones((2*len(pt), 2))

bad = []
for n in (3, 1):
    ref = oqupy.compute_dynamics(oqupy.System(0.15*sx + 0.15*sz), up,
                                 process_tensor=pt, start_time=1.0,
                                 num_steps=n, progress_type='silent')
    assert len(ref.times) == n + 1
    for record_all in (True, False):
        try:
            _, dyn = oqupy.compute_gradient_and_dynamics(
                psys, up, dn.T, [pt], pars, start_time=1.0, num_steps=n,
                record_all=record_all, progress_type='silent')
            exp = 1.0 + 0.1*np.arange(n+1) if record_all else [1.0 + 0.1*n]
            if len(dyn.times) != len(exp) or not np.allclose(dyn.times, exp):
                bad.append("num_steps=%d record_all=%s: times %s"
                           % (n, record_all, dyn.times))
        except Exception as e:  # pylint: disable=broad-except
            bad.append("num_steps=%d record_all=%s: %s: %s"
                       % (n, record_all, type(e).__name__, e))
if bad:
    print("compute_gradient_and_dynamics with num_steps < len(process tensor):")
    for b in bad: print("  ", b)
    sys.exit(1)
sys.exit(0)
