"""C12: CustomSD / PowerLawSD.correlation_2d_integral(shape='upper-triangle')
with time_1 != 0 does not equal the documented integral
  int_{t1}^{t1+D} int_0^{t'-t1} C(t'-t'') dt'' dt'
(direct integration of the object's own correlation function) -- it returns
eta(t1+D) - eta(t1), i.e. the integral over the whole strip 0 < t'' < t'.
CustomCorrelations with the same correlation function implements the
documented formula, so the two classes disagree."""
import sys, warnings
import numpy as np
from scipy import integrate
import oqupy
warnings.filterwarnings("ignore")

alpha, wc = 0.3, 2.0
c = oqupy.PowerLawSD(alpha=alpha, zeta=1.0, cutoff=wc,
                     cutoff_type='exponential', temperature=0.0)
closed = lambda tau: 2*alpha*wc**2/(1 + 1j*wc*tau)**2   # ohmic, T=0
cc = oqupy.CustomCorrelations(closed)
bad = []
d = 0.3
for t1 in (0.0, 0.5, 2.0):
    lib = c.correlation_2d_integral(d, t1, shape='upper-triangle')
    cus = cc.correlation_2d_integral(d, t1, shape='upper-triangle')
    re = integrate.dblquad(lambda y, x: c.correlation(x - y).real, t1, t1 + d,
                           lambda x: 0.0, lambda x: x - t1)[0]
    im = integrate.dblquad(lambda y, x: c.correlation(x - y).imag, t1, t1 + d,
                           lambda x: 0.0, lambda x: x - t1)[0]
    direct = re + 1j*im
    if abs(lib - direct) > 1e-6*abs(direct) + 1e-10:
        bad.append("time_1=%g: PowerLawSD gives %s, direct integration of its "
                   "own correlation function %s, CustomCorrelations %s"
                   % (t1, lib, direct, cus))
if bad:
    print("upper-triangle cell at a position time_1 != 0:")
    for b in bad: print("  ", b)
    sys.exit(1)
sys.exit(0)
