"""C12: imaginary-time (Matsubara) correlations / 2D integrals are wrong at
low temperature.  The 'overflow guard' in CustomSD.correlation and
CustomSD._eta_function switches, for omega > ~36 T, to the zero-temperature
integrand J(w) exp(-w tau) and drops the term exp(-w (beta - tau)), which is
NOT small in imaginary time for tau close to beta = 1/T.  The exact kernel
K(tau) = int J(w) cosh(w(beta/2 - tau))/sinh(w beta/2) dw is symmetric,
K(tau) = K(beta - tau); the library breaks this symmetry (factor 6 at
tau = beta for T = 0.1, cutoff 5) and the last Matsubara cells used by
GibbsTempo are off by ~30 %."""
import sys, warnings
import numpy as np
from scipy import integrate
import oqupy
warnings.filterwarnings("ignore")

T, wc, n = 0.1, 5.0, 10
beta = 1.0/T; dt = beta/n
c = oqupy.PowerLawSD(alpha=0.1, zeta=1.0, cutoff=wc,
                     cutoff_type='exponential', temperature=T)
J = c.spectral_density
def k_exact(tau):
    f = lambda w: J(w)*(np.exp(-w*tau) + np.exp(-w*(beta - tau))) \
                  / (-np.expm1(-w*beta))
    return integrate.quad(f, 0, wc, limit=500)[0] \
         + integrate.quad(f, wc, np.inf, limit=500)[0]

bad = []
# (1) correlation function: symmetry and exact value
for tau in (0.0, 0.1*beta):
    a = c.correlation(tau, matsubara=True)
    b = c.correlation(beta - tau, matsubara=True)
    ex = k_exact(beta - tau)
    if abs(a - b) > 1e-6*abs(a) or abs(b - ex) > 1e-6*abs(ex):
        bad.append("correlation(tau=%.3g)=%.6g but correlation(beta-tau)=%.6g"
                   " (exact %.6g)" % (tau, a, b, ex))
# (2) 2D integrals: cell k and cell n-k are mirror images, |eta_k| equal
e1 = c.correlation_2d_integral(dt, 1*dt, shape='square', matsubara=True)
e9 = c.correlation_2d_integral(dt, (n-1)*dt, shape='square', matsubara=True)
ex9 = integrate.dblquad(lambda y, x: k_exact(x - y), (n-1)*dt, n*dt,
                        lambda x: 0.0, lambda x: dt, epsrel=1e-6)[0]
if abs(abs(e9) - abs(ex9)) > 1e-4*abs(ex9):
    bad.append("square cell at (n-1) dt: library %.6g, exact magnitude %.6g "
               "(mirror cell at 1 dt: %.6g)" % (e9, ex9, e1))
if bad:
    print("Matsubara correlations for T=%g, cutoff=%g:" % (T, wc))
    for b in bad: print("  ", b)
    sys.exit(1)
sys.exit(0)
