"""C13: compute_dynamics_with_field takes the number of steps and the time
step from the FIRST system only (system_dynamics.py: num_steps =
parsed_parameters_dict["num_steps"][0]; dt = ...["dt"][0]).
 (a) With process tensors of different length the result depends on the
     order of the systems: [4 steps, 6 steps] gives the grid 0..0.4, the
     same problem listed as [6 steps, 4 steps] raises IndexError.
 (b) A second system whose process tensor was built for dt=0.2 is silently
     propagated and labelled on the dt=0.1 grid (within ONE system the same
     mismatch is rejected: 'All process tensors must have the same timestep
     length')."""
import sys, warnings
import numpy as np
import oqupy
warnings.filterwarnings("ignore")

sx = oqupy.operators.sigma("x"); sz = oqupy.operators.sigma("z")
up = oqupy.operators.spin_dm("z+")
corr = oqupy.PowerLawSD(alpha=0.1, zeta=1, cutoff=3.0, cutoff_type='gaussian',
                        temperature=0.5)
bath = oqupy.Bath(0.5*sz, corr)
def H(t, a): return 0.5*sx + 0.1*(a + np.conj(a))*sz
def eom(t, states, a):
    return -1j*a - 0.1*np.trace(states[0] @ sx) - 0.1*np.trace(states[1] @ sx)
mfs = oqupy.MeanFieldSystem([oqupy.TimeDependentSystemWithField(H),
                             oqupy.TimeDependentSystemWithField(H)], eom)
p01 = oqupy.TempoParameters(dt=0.1, dkmax=3, epsrel=1e-4)
p02 = oqupy.TempoParameters(dt=0.2, dkmax=3, epsrel=1e-4)
pt6 = oqupy.PtTempo(bath, 0.0, 0.6, p01).get_process_tensor(progress_type='silent')
pt4 = oqupy.PtTempo(bath, 0.0, 0.4, p01).get_process_tensor(progress_type='silent')
ptb = oqupy.PtTempo(bath, 0.0, 0.8, p02).get_process_tensor(progress_type='silent')

def run(pts):
    try:
        d = oqupy.compute_dynamics_with_field(
            mfs, 1.0+0j, initial_state_list=[up, up],
            process_tensor_list=pts, progress_type='silent')
        return "times %s" % list(np.round(d.times, 10))
    except Exception as e:  # pylint: disable=broad-except
        return "%s: %s" % (type(e).__name__, e)

bad = []
r1, r2 = run([pt4, pt6]), run([pt6, pt4])
if r1 != r2:
    bad.append("(a) process tensors [4,6 steps] -> %s ; [6,4 steps] -> %s"
               % (r1, r2))
r3 = run([pt4, ptb])
if r3.startswith("times"):
    bad.append("(b) process tensors with dt=0.1 and dt=0.2 accepted silently, "
               "both systems labelled on %s" % r3)
if bad:
    for b in bad: print(b)
    sys.exit(1)
sys.exit(0)
