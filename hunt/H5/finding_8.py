"""C13: get_number_of_steps uses a fixed absolute tolerance of 1e-8 on
(end_time - start_time)/dt.  The floating point rounding of a grid-point
end_time written as a literal is ~ eps*|end_time|/dt in that quotient, which
exceeds 1e-8 when |start_time|/dt >~ 1e8.  Then a grid-point end_time is not
reached: Tempo stops one step short and PtTempo builds a process tensor that
is one step too short."""
import sys, warnings
import numpy as np
import oqupy
from oqupy.util import get_number_of_steps
warnings.filterwarnings("ignore")

cases = [(1.0e6, 0.001, 1000000.004, 4),      # start, dt, end literal, m
         (1.0e5, 1.0e-4, 100000.0007, 7),
         (12345.6, 1.0e-4, 12345.6004, 4)]
bad = []
for start, dt, end, m in cases:
    n = get_number_of_steps(start, end, dt)
    if n != m:
        bad.append("start_time=%r dt=%r end_time=%r: %d steps instead of %d"
                   % (start, dt, end, n, m))

start, dt, end, m = cases[0]
sx = oqupy.operators.sigma("x"); sz = oqupy.operators.sigma("z")
corr = oqupy.PowerLawSD(alpha=0.1, zeta=1, cutoff=3.0, cutoff_type='gaussian',
                        temperature=0.5)
bath = oqupy.Bath(0.5*sz, corr)
par = oqupy.TempoParameters(dt=dt, dkmax=2, epsrel=1e-4)
dyn = oqupy.Tempo(oqupy.System(0.5*sx), bath, par,
                  oqupy.operators.spin_dm("z+"), start).compute(
                      end, progress_type='silent')
if len(dyn.times) != m + 1:
    bad.append("Tempo(start_time=%r, dt=%r).compute(%r) returns %d states, "
               "last time %r (expected %d states)"
               % (start, dt, end, len(dyn.times), dyn.times[-1], m + 1))
pt = oqupy.PtTempo(bath, start, end, par).get_process_tensor(
    progress_type='silent')
if len(pt) != m:
    bad.append("PtTempo(%r, %r) has length %d (expected %d)"
               % (start, end, len(pt), m))
if bad:
    for b in bad: print(b)
    sys.exit(1)
sys.exit(0)
