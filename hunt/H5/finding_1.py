"""C19: ProgressBar.exit() does not wait for a timer callback that is already
running.  If the (1 s) progress timer fires while a step is in progress and the
callback is still inside _print_status() when the computation finishes, the
library call returns while a library-started thread is still alive, and that
thread writes a (stale) progress line to the output stream AFTER the call
returned.  The interleaving is made deterministic with an output stream whose
write() is slow for non-main threads (as e.g. a full pipe would be)."""
import sys, time, threading
import numpy as np

real_stdout = sys.stdout
main = threading.main_thread()

class GateStream:
    def __init__(self):
        self.release = threading.Event()
        self.entered = threading.Event()
        self.log = []      # (thread name, text)
    def write(self, s):
        if threading.current_thread() is not main:
            self.entered.set()
            self.release.wait(20.0)   # timer-thread write is preempted here
        self.log.append((threading.current_thread().name, s))
        return len(s)
    def flush(self):
        pass

stream = GateStream()
sys.stdout = stream          # ProgressBar picks up sys.stdout when created
import oqupy

state = {"armed": False, "slept": False}
def hamiltonian(t):
    if state["armed"] and not state["slept"]:
        state["slept"] = True    # one slow step (> 1 s): the timer fires
        time.sleep(1.4)
    return 0.5 * oqupy.operators.sigma("x")

def run(fail):
    state["armed"] = False; state["slept"] = False
    stream.release.clear(); stream.entered.clear(); del stream.log[:]
    calls = []
    def ham(t):
        calls.append(t)
        if fail and state["armed"] and t > 0.25:
            raise RuntimeError("injected failure in Hamiltonian")
        return hamiltonian(t)
    system = oqupy.TimeDependentSystem(ham)
    state["armed"] = True
    try:
        oqupy.compute_dynamics(system, oqupy.operators.spin_dm("z+"), dt=0.1,
                               num_steps=4, progress_type="bar")
    except RuntimeError:
        pass
    # ---- the library call has returned / raised here ----
    time.sleep(0.3)  # grace period: cancelled timers wind down immediately
    n_log = len(stream.log)
    alive = [t for t in threading.enumerate() if t is not main and t.is_alive()]
    stream.release.set()
    for t in alive:
        t.join(5.0)
    late = stream.log[n_log:]
    return alive, late

problems = []
for fail in (False, True):
    alive, late = run(fail)
    if alive or late:
        problems.append((fail, [t.name for t in alive], late))

sys.stdout = real_stdout
if problems:
    for fail, names, late in problems:
        print("compute_dynamics(progress_type='bar') %s, but library threads "
              "were still alive: %s; text written to the output stream after "
              "the call ended: %r" % ("raised" if fail else "returned",
                                      names, late))
    sys.exit(1)
print("no background activity left behind")
sys.exit(0)
