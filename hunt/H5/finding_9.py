"""C13 (PtTebd): PtTebd keeps a reference to the caller's PtTebdParameters
object and reads parameters.dt live in PtTebd.time(step), while the TEBD
propagator is built once in initialize() from the dt at that moment.
PtTebdParameters.dt has a public setter.  History: compute two steps, change
parameters.dt (e.g. to reuse the parameters object for another computation),
continue the first computation -> the new states are propagated with the old
step 0.2 but labelled with step*0.1: results['time'] is no longer sorted and
the per-site Dynamics (which insert by time) put the states of steps 3, 4
before / onto the state of step 2."""
import sys, warnings
import numpy as np
import oqupy
warnings.filterwarnings("ignore")

sx = 0.5*oqupy.operators.sigma("x"); sz = 0.5*oqupy.operators.sigma("z")
up = oqupy.operators.spin_dm("z+"); dn = oqupy.operators.spin_dm("z-")
def chain():
    sc = oqupy.SystemChain([2, 2])
    sc.add_site_hamiltonian(site=0, hamiltonian=sz)
    sc.add_site_hamiltonian(site=1, hamiltonian=0.3*sx)
    sc.add_nn_hamiltonian(site=0, hamiltonian_l=1.3*sx, hamiltonian_r=sx)
    return sc
def make(par):
    return oqupy.PtTebd(initial_augmented_mps=oqupy.AugmentedMPS([up, dn]),
                        system_chain=chain(), process_tensors=[None, None],
                        parameters=par, dynamics_sites=[0])

ref = make(oqupy.PtTebdParameters(dt=0.2, order=2, epsrel=1e-7)).compute(
    4, progress_type='silent')
par = oqupy.PtTebdParameters(dt=0.2, order=2, epsrel=1e-7)
a = make(par)
a.compute(2, progress_type='silent')
par.dt = 0.1                       # parameters object reused elsewhere
res = a.compute(4, progress_type='silent')

bad = []
t = np.array(res['time'])
if not np.allclose(t, ref['time']):
    bad.append("results['time'] = %s (expected %s)" % (t, ref['time']))
if np.any(np.diff(t) <= 0):
    bad.append("results['time'] is not sorted")
dt_, dr = res['dynamics'][0], ref['dynamics'][0]
if len(dt_.times) != len(dr.times) or not np.allclose(dt_.times, dr.times) \
        or np.abs(dt_.states - dr.states).max() > 1e-6:
    bad.append("site dynamics times %s; states differ from the reference "
               "computation by %.3g (order of states scrambled)"
               % (dt_.times, np.abs(dt_.states - dr.states).max()))
if bad:
    for b in bad: print(b)
    sys.exit(1)
sys.exit(0)
