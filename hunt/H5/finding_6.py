"""C12: copy.deepcopy of a PowerLawSD shares the j-function closure with the
original (only __copy__ was given its own closure).  The deep copy's
spectral density / correlation function follow the ORIGINAL's alpha, zeta,
cutoff, while its own attributes (and the memoisation key of its 2D
integrals) do not.  So (a) changing the copy's alpha has no effect on its
correlation function, and (b) after a change of the original, the copy's
memoised 2D integrals no longer equal the integral of its own correlation
function, and neither matches the closed form for the copy's parameters."""
import sys, copy, warnings
import numpy as np
import oqupy
warnings.filterwarnings("ignore")

closed = lambda a, wc, tau: 2*a*wc**2/(1 + 1j*wc*tau)**2
c1 = oqupy.PowerLawSD(alpha=0.3, zeta=1.0, cutoff=2.0,
                      cutoff_type='exponential', temperature=0.0)
c2 = copy.deepcopy(c1)
bad = []
eta_before = c2.correlation_2d_integral(0.1, 0.2)       # memoised
c1.alpha = 3.0                                          # touch the ORIGINAL
corr_c2 = c2.correlation(0.5)
if abs(corr_c2 - closed(c2.alpha, 2.0, 0.5)) > 1e-6:
    bad.append("deep copy has alpha=%g but its correlation(0.5)=%s (closed "
               "form %s) follows the original's alpha=%g"
               % (c2.alpha, corr_c2, closed(c2.alpha, 2.0, 0.5), c1.alpha))
eta_after = c2.correlation_2d_integral(0.1, 0.2)
# second difference of eta ~ C(t) dt^2 : consistency of eta with correlation
approx = c2.correlation(0.2)*0.1**2
if abs(eta_after - approx) > 0.2*abs(approx):
    bad.append("deep copy: square integral %s is inconsistent with its own "
               "correlation function (C(0.2) dt^2 = %s)" % (eta_after, approx))
c1.alpha = 0.3
c3 = copy.deepcopy(c1); c3.alpha = 1.0
if abs(c3.spectral_density(1.0) - 2*1.0*1.0*np.exp(-0.5)) > 1e-9:
    bad.append("deep copy with alpha set to 1.0 still has J(1)=%g (expected "
               "%g)" % (c3.spectral_density(1.0), 2*np.exp(-0.5)))
if bad:
    for b in bad: print(b)
    sys.exit(1)
sys.exit(0)
