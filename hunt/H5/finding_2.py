"""C13: compute_dynamics_with_field(num_steps=0) crashes with an
UnboundLocalError instead of returning the single grid point k = 0
(state and field at start_time).  compute_dynamics(num_steps=0) and
MeanFieldTempo.compute(end_time=start_time) handle the same request."""
import sys, warnings
import numpy as np
import oqupy
warnings.filterwarnings("ignore")

sx = oqupy.operators.sigma("x"); sz = oqupy.operators.sigma("z")
up = oqupy.operators.spin_dm("z+")
def H(t, a): return 0.5*sx + 0.1*(a + np.conj(a))*sz
def eom(t, states, a): return -1j*a - 0.1*np.trace(states[0] @ sx)
mfs = oqupy.MeanFieldSystem([oqupy.TimeDependentSystemWithField(H)], eom)

# reference: the same request without field works
ref = oqupy.compute_dynamics(oqupy.System(0.5*sx), up, dt=0.1, num_steps=0,
                             start_time=2.0, progress_type='silent')
assert list(ref.times) == [2.0]

bad = []
for record_all in (True, False):
    try:
        dyn = oqupy.compute_dynamics_with_field(
            mfs, 1.0+0.5j, initial_state_list=[up], dt=0.1, num_steps=0,
            start_time=2.0, record_all=record_all, progress_type='silent')
        ok = (list(dyn.times) == [2.0]
              and np.allclose(dyn.fields, [1.0+0.5j])
              and np.allclose(dyn.system_dynamics[0].states[0], up))
        if not ok:
            bad.append("record_all=%s: wrong result times=%s fields=%s"
                       % (record_all, dyn.times, dyn.fields))
    except Exception as e:  # pylint: disable=broad-except
        bad.append("record_all=%s: %s: %s" % (record_all, type(e).__name__, e))
if bad:
    print("compute_dynamics_with_field(num_steps=0, start_time=2.0) should "
          "return the state/field at t=2.0 but:")
    for b in bad: print("  ", b)
    sys.exit(1)
sys.exit(0)
