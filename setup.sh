#!/bin/bash
# offline setup: nothing to build (pure Python on python3-vt + /venv); verify the tools are present.
set -e
python3-vt -c "import z3, sympy; print('z3', z3.get_version_string())"
/venv/bin/python -c "import numpy, oqupy; print('oqupy at', oqupy.__file__)"
test -x /usr/bin/cvc5 && echo cvc5 ok
mkdir -p /verif/evidence /verif/replays
